package main

// token: issue (fresh and clashing symbols / min units), edit, mint, burn, ownership transfer.
// State = params, tokens (raw 0x01 keys), min-unit index (0x02), owner index (0x03), burned totals (0x04).

import (
	"bytes"
	"encoding/json"
	"fmt"
	"sort"

	sdkmath "cosmossdk.io/math"
	storetypes "cosmossdk.io/store/types"
	gogotypes "github.com/cosmos/gogoproto/types"
	"github.com/ethereum/go-ethereum/common"
	sdk "github.com/cosmos/cosmos-sdk/types"

	tokentypes "mods.irisnet.org/modules/token/types"
	tokenv1 "mods.irisnet.org/modules/token/types/v1"

	"verifharness/lib"
)

type tokenMod struct{}

func init() { register(tokenMod{}) }

type tokenScratch struct {
	names      *lib.Interner
	nUser      int
	burnedSome bool
	handedOver bool
}

func (tokenMod) scratch(x *X) *tokenScratch {
	if s, ok := x.Scratch["token"]; ok {
		return s.(*tokenScratch)
	}
	s := &tokenScratch{names: lib.NewInterner()}
	x.Scratch["token"] = s
	return s
}

func (tokenMod) Name() string   { return "token" }
func (tokenMod) Deps() []string { return nil }

// the last two entries of each list form the CLASH universe: the string "ufoo" is a symbol (of ufoo/ufoomin) AND a
// min unit (of foo/ufoo) — names shared across the two namespaces, issued in both orders
var tokSymbols = []string{"kitty", "abc", "btcx", "zeta", "mno", "ufoo", "foo"}
var tokMinUnits = []string{"ukitty", "uabc", "sat", "uzeta", "mmm", "ufoomin", "ufoo"}
var tokNames = []string{"Kitty Token", "A", "a name of exactly thirty-two ch.", "Z"}

func rankIn(universe []string, extra string, v string) int64 {
	all := append([]string{extra}, universe...)
	sort.Strings(all)
	for i, s := range all {
		if s == v {
			return int64(i)
		}
	}
	return -1
}

// owners: the actors and the owner of the native token, in the byte order of the raw addresses
func tokOwnerRank(c *Chain, bech string) int64 {
	if bech == "" {
		return -1
	}
	addr, err := sdk.AccAddressFromBech32(bech)
	if err != nil {
		return -2
	}
	native, _ := sdk.AccAddressFromBech32(tokenv1.GetNativeToken().Owner)
	all := [][]byte{native}
	for _, a := range c.Actors {
		all = append(all, a)
	}
	sort.Slice(all, func(i, j int) bool { return bytes.Compare(all[i], all[j]) < 0 })
	for i, a := range all {
		if bytes.Equal(a, addr) {
			return int64(i)
		}
	}
	return 99
}

// issue:    A = [owner, symbol index, min unit index, scale, initial, max, mintable, name]
// edit:     A = [sender kind (0 owner, 1 other), symbol index, name, max (0: unchanged), mintable (0 nil, 1 true, 2 false)]
// mint:     A = [sender kind, symbol index, receiver, amount]
// burn:     A = [holder, symbol index, amount (0: everything)]
// handover: A = [sender kind, symbol index, recipient]
// setparams: A = [variant, symbol index], MsgUpdateParams by the authority (see Apply)
func (tokenMod) Gen(r *lib.Rand, tier string) []Step {
	n := 4 + r.Intn(10)
	if tier == "thorough" {
		n = 4 + r.Intn(30)
	}
	var out []Step
	k := 0
	if r.Chance(1, 3) {
		// clash universe: token A's symbol = token B's min unit, in either issue order, around a third token
		a := Step{M: "token", Op: "issue", A: []int64{int64(r.Intn(3)), 5, 5, int64(r.Intn(7)), int64(1 + r.Intn(1000)), int64(2000 + r.Intn(1000)), 1, 0}}
		b := Step{M: "token", Op: "issue", A: []int64{int64(r.Intn(3)), 6, 6, int64(r.Intn(7)), int64(1 + r.Intn(1000)), int64(2000 + r.Intn(1000)), 1, 1}}
		c := Step{M: "token", Op: "issue", A: []int64{int64(r.Intn(3)), int64(r.Intn(5)), int64(r.Intn(5)), 6, 10, 100, 1, 2}}
		switch r.Intn(3) {
		case 0:
			out = append(out, a, b, c)
		case 1:
			out = append(out, b, c, a)
		default:
			out = append(out, c, a, b)
		}
	}
	for i := 0; i < n; i++ {
		if i >= 2 && r.Chance(1, 20) {
			out = append(out, Step{M: "token", Op: "setparams", A: []int64{int64(r.Intn(2)), int64(r.Intn(len(tokSymbols)))}})
			continue
		}
		w := r.Weighted(4, 2, 3, 3, 2, 1)
		if i < 2 {
			w = 0
		}
		switch w {
		case 0:
			si, mi := int64(k%5), int64(k%5)
			k++
			if r.Chance(1, 6) {
				si = int64(r.Intn(5)) // may clash
			}
			if r.Chance(1, 6) {
				mi = int64(r.Intn(5))
			}
			initial := int64(1 + r.Intn(1000000))
			if r.Chance(1, 8) {
				initial = 0
			}
			max := initial + int64(r.Intn(1000000))
			if r.Chance(1, 10) {
				max = initial - 1 // rejected (unless negative -> huge)
			}
			out = append(out, Step{M: "token", Op: "issue", A: []int64{int64(r.Intn(3)), si, mi, int64(r.Intn(19)), initial, max, int64(r.Weighted(1, 3)), int64(r.Intn(len(tokNames)))}})
		case 1:
			out = append(out, Step{M: "token", Op: "edit", A: []int64{int64(r.Weighted(5, 1)), int64(r.Intn(len(tokSymbols))), int64(r.Intn(len(tokNames))), int64(r.Intn(3)) * int64(r.Intn(3000000)), int64(r.Intn(3))}})
		case 2:
			out = append(out, Step{M: "token", Op: "mint", A: []int64{int64(r.Weighted(6, 1)), int64(r.Intn(len(tokSymbols))), int64(r.Intn(3)), int64(1 + r.Intn(100000))}})
		case 3:
			amt := int64(0)
			if r.Chance(2, 3) {
				amt = int64(1 + r.Intn(1000))
			}
			out = append(out, Step{M: "token", Op: "burn", A: []int64{int64(r.Intn(3)), int64(r.Intn(len(tokSymbols))), amt}})
		case 4:
			out = append(out, Step{M: "token", Op: "handover", A: []int64{int64(r.Weighted(6, 1)), int64(r.Intn(len(tokSymbols))), int64(r.Intn(3))}})
		case 5:
			out = append(out, Step{Op: "block"})
		}
	}
	return out
}

// an issued symbol (preferring the indexed one)
func (tokenMod) pickSymbol(c *Chain, i int64) (tokenv1.Token, bool) {
	var have []tokenv1.Token
	for _, t := range c.Token.GetTokens(c.Ctx, nil) {
		tt := t.(*tokenv1.Token)
		if tt.Symbol != "stake" {
			have = append(have, *tt)
		}
	}
	if len(have) == 0 {
		return tokenv1.Token{}, false
	}
	return have[int(i)%len(have)], true
}

func (m tokenMod) Apply(x *X, st Step) string {
	a := x.A
	s := m.scratch(x)
	addr := func(i int64) string { return a.Actors[int(i)%3].String() }
	senderOf := func(t tokenv1.Token, kind int64) string {
		if kind == 0 {
			return t.Owner
		}
		for i := 0; i < 3; i++ {
			if addr(int64(i)) != t.Owner {
				return addr(int64(i))
			}
		}
		return t.Owner
	}
	switch st.Op {
	case "issue":
		max := uint64(st.A[5])
		o := a.Deliver(&tokenv1.MsgIssueToken{Symbol: tokSymbols[st.A[1]%int64(len(tokSymbols))], Name: tokNames[st.A[7]%int64(len(tokNames))],
			Scale: uint32(st.A[3]), MinUnit: tokMinUnits[st.A[2]%int64(len(tokMinUnits))], InitialSupply: uint64(st.A[4]), MaxSupply: max,
			Mintable: st.A[6] == 1, Owner: addr(st.A[0])})
		return o.Kind
	case "edit":
		t, ok := m.pickSymbol(a, st.A[1])
		if !ok {
			return "rej"
		}
		mint := []tokentypes.Bool{tokentypes.Nil, tokentypes.True, tokentypes.False}[st.A[4]%3]
		return a.Deliver(&tokenv1.MsgEditToken{Symbol: t.Symbol, Name: tokNames[st.A[2]%int64(len(tokNames))], MaxSupply: uint64(st.A[3]), Mintable: mint, Owner: senderOf(t, st.A[0])}).Kind
	case "mint":
		t, ok := m.pickSymbol(a, st.A[1])
		if !ok {
			return "rej"
		}
		return a.Deliver(&tokenv1.MsgMintToken{Coin: sdk.NewCoin(t.MinUnit, sdkmath.NewInt(st.A[3])), Receiver: addr(st.A[2]), Owner: senderOf(t, st.A[0])}).Kind
	case "burn":
		t, ok := m.pickSymbol(a, st.A[1])
		if !ok {
			return "rej"
		}
		holder := a.Actors[int(st.A[0])%3]
		for k := 0; k < 3 && a.Balance(holder, t.MinUnit).IsZero(); k++ {
			holder = a.Actors[(int(st.A[0])+k+1)%3]
		}
		amt := sdkmath.NewInt(st.A[2])
		if st.A[2] == 0 {
			amt = a.Balance(holder, t.MinUnit)
		}
		o := a.Deliver(&tokenv1.MsgBurnToken{Coin: sdk.NewCoin(t.MinUnit, amt), Sender: holder.String()})
		if o.OK() {
			s.burnedSome = true
		}
		return o.Kind
	case "handover":
		t, ok := m.pickSymbol(a, st.A[1])
		if !ok {
			return "rej"
		}
		o := a.Deliver(&tokenv1.MsgTransferTokenOwner{SrcOwner: senderOf(t, st.A[0]), DstOwner: addr(st.A[2]), Symbol: t.Symbol})
		if o.OK() {
			s.handedOver = true
		}
		return o.Kind
	case "setparams":
		// MsgUpdateParams by the authority (the gov module account); A = [variant, symbol index]:
		// 0 another tax rate and mint fee ratio (harmless); 1 the issue fee is denominated in the symbol of the
		// universe with that index, issued or not (an unissued one is refused since the fix; before it the export was un-importable)
		p := a.Token.GetParams(a.Ctx)
		switch st.A[0] % 2 {
		case 0:
			p.TokenTaxRate = sdkmath.LegacyNewDecWithPrec(25, 2)
			p.MintTokenFeeRatio = sdkmath.LegacyNewDecWithPrec(5, 2)
		case 1:
			p.IssueTokenBaseFee = sdk.NewCoin(tokSymbols[int(st.A[1])%len(tokSymbols)], p.IssueTokenBaseFee.Amount)
		}
		o := a.Deliver(&tokenv1.MsgUpdateParams{Authority: lib.ModuleAddr("gov").String(), Params: p})
		return o.Kind
	}
	return "rej"
}

func (tokenMod) Prep(x *X, c *Chain) bool { return false }

func tokParamsTerm(p tokenv1.Params) string {
	beacon := int64(0)
	if len(p.Beacon) > 0 {
		beacon = -1
		if common.IsHexAddress(p.Beacon) {
			beacon = 1
		}
	}
	return lib.App("mkParams", lib.ZB(p.TokenTaxRate.BigInt()), lib.Pair(lib.Z(rankIn(tokSymbols, "stake", p.IssueTokenBaseFee.Denom)), lib.ZI(p.IssueTokenBaseFee.Amount)),
		lib.ZB(p.MintTokenFeeRatio.BigInt()), lib.B(p.EnableErc20), lib.Z(beacon))
}

func (m tokenMod) tokenTerm(x *X, c *Chain, t tokenv1.Token) string {
	s := m.scratch(x)
	if t.Contract != "" {
		x.Notes = append(x.Notes, "token "+t.Symbol+" has an ERC20 contract (not modelled)")
	}
	sym, mu := rankIn(tokSymbols, "stake", t.Symbol), rankIn(tokMinUnits, "stake", t.MinUnit)
	if sym < 0 || mu < 0 {
		x.Notes = append(x.Notes, "token outside the universe: "+t.Symbol+"/"+t.MinUnit)
	}
	return lib.App("mkToken", lib.Z(sym), lib.B(tokentypes.ValidateSymbol(t.Symbol) == nil), lib.Z(int64(s.names.Id(t.Name))), lib.Z(int64(len(t.Name))),
		lib.ZU(uint64(t.Scale)), lib.Z(mu), lib.B(tokentypes.ValidateMinUnit(t.MinUnit) == nil), lib.ZU(t.InitialSupply), lib.ZU(t.MaxSupply),
		lib.B(t.Mintable), lib.Z(tokOwnerRank(c, t.Owner)))
}

func (m tokenMod) State(x *X, c *Chain) string {
	s := m.scratch(x)
	store := c.Ctx.KVStore(c.App.GetKey(tokentypes.StoreKey))
	cdc := c.App.AppCodec()
	var ts, mi, oi, bs []string
	it := storetypes.KVStorePrefixIterator(store, tokentypes.PrefixTokenForSymbol)
	n := 0
	for ; it.Valid(); it.Next() {
		var t tokenv1.Token
		cdc.MustUnmarshal(it.Value(), &t)
		ts = append(ts, lib.Pair(lib.Z(rankIn(tokSymbols, "stake", string(it.Key()[1:]))), m.tokenTerm(x, c, t)))
		if t.Symbol != "stake" {
			n++
		}
		// the gRPC query by symbol and by min unit must show the stored token
		for _, d := range []string{t.Symbol, t.MinUnit} {
			if d == t.MinUnit && d != t.Symbol && c.Token.HasSymbol(c.Ctx, d) {
				continue // GetToken looks a name up as a symbol first: another token's symbol shadows this min unit
			}
			if q, err := c.Token.GetToken(c.Ctx, d); err != nil || q.GetSymbol() != t.Symbol {
				x.Notes = append(x.Notes, "token "+d+": GetToken disagrees with the store")
			}
		}
	}
	it.Close()
	if c == x.A {
		s.nUser = n
	}
	it = storetypes.KVStorePrefixIterator(store, tokentypes.PrefixTokenForMinUint)
	for ; it.Valid(); it.Next() {
		var sv gogotypes.StringValue
		cdc.MustUnmarshal(it.Value(), &sv)
		mi = append(mi, lib.Pair(lib.Z(rankIn(tokMinUnits, "stake", string(it.Key()[1:]))), lib.Z(rankIn(tokSymbols, "stake", sv.Value))))
	}
	it.Close()
	it = storetypes.KVStorePrefixIterator(store, tokentypes.PrefixTokens)
	for ; it.Valid(); it.Next() {
		var sv gogotypes.StringValue
		cdc.MustUnmarshal(it.Value(), &sv)
		k := it.Key()
		owner := sdk.AccAddress(k[1:21]).String()
		oi = append(oi, lib.Pair(lib.Pair(lib.Z(tokOwnerRank(c, owner)), lib.Z(rankIn(tokSymbols, "stake", string(k[21:])))), lib.Z(rankIn(tokSymbols, "stake", sv.Value))))
	}
	it.Close()
	it = storetypes.KVStorePrefixIterator(store, tokentypes.PrefixBurnTokenAmt)
	for ; it.Valid(); it.Next() {
		var coin sdk.Coin
		cdc.MustUnmarshal(it.Value(), &coin)
		if coin.Denom != string(it.Key()[1:]) {
			x.Notes = append(x.Notes, "token: burned total stored under another denomination: "+coin.Denom)
		}
		bs = append(bs, tokCoinTerm(coin))
	}
	it.Close()
	return lib.App("mkState", tokParamsTerm(c.Token.GetParams(c.Ctx)), lib.L(ts...), lib.L(mi...), lib.L(oi...), lib.L(bs...))
}

func tokCoinTerm(c sdk.Coin) string {
	d := rankIn(tokMinUnits, "stake", c.Denom)
	if sdk.ValidateDenom(c.Denom) != nil {
		d = -1
	}
	amt := "(-1)"
	if !c.Amount.IsNil() {
		amt = lib.ZI(c.Amount)
	}
	return lib.Pair(lib.Z(d), amt)
}

func (m tokenMod) Genesis(x *X, c *Chain, raw json.RawMessage) string {
	var gs tokenv1.GenesisState
	c.App.AppCodec().MustUnmarshalJSON(raw, &gs)
	var ts, bs []string
	for _, t := range gs.Tokens {
		ts = append(ts, m.tokenTerm(x, c, t))
	}
	for _, b := range gs.BurnedCoins {
		bs = append(bs, tokCoinTerm(b))
	}
	return lib.App("mkGenesis", tokParamsTerm(gs.Params), lib.L(ts...), lib.L(bs...))
}

func (tokenMod) Cross(x *X, a, b *Chain) string { return "" }

func (m tokenMod) Case(x *X, runs []string) string { return lib.App("mkCase", lib.L(runs...)) }

// non-trivial: at least two user tokens exist, some amount was burned (a burned tally exists) and a
// token changed hands; the token module has no time-bound objects
func (m tokenMod) NonTrivial(x *X) bool {
	s := m.scratch(x)
	return s.nUser >= 2 && s.burnedSome
}

var _ = fmt.Sprint

// Tamper: damage the exported genesis (see main.go: Tamperer)
func (m tokenMod) Tamper(x *X, c *Chain, raw json.RawMessage, k int) (json.RawMessage, string, bool) {
	var gs tokenv1.GenesisState
	c.App.AppCodec().MustUnmarshalJSON(raw, &gs)
	if len(gs.Tokens) == 0 {
		return nil, "", false
	}
	used := map[string]bool{}
	for _, t := range gs.Tokens {
		used[t.Symbol] = true
	}
	unused := ""
	for _, s := range tokSymbols {
		if !used[s] {
			unused = s
		}
	}
	last := gs.Tokens[len(gs.Tokens)-1]
	what := ""
	switch k % 5 {
	case 0:
		what = "duplicate-symbol"
		dup := last
		dup.Name = "copy"
		gs.Tokens = append(gs.Tokens, dup)
	case 1:
		if unused == "" {
			return nil, "", false
		}
		what = "duplicate-min-unit"
		dup := last
		dup.Symbol = unused
		gs.Tokens = append(gs.Tokens, dup)
	case 2:
		if unused == "" {
			return nil, "", false
		}
		what = "fee-token-missing"
		gs.Params.IssueTokenBaseFee.Denom = unused
	case 3:
		if gs.Tokens[0].InitialSupply == 0 {
			return nil, "", false
		}
		what = "max-below-initial"
		gs.Tokens[0].MaxSupply = gs.Tokens[0].InitialSupply - 1
	case 4:
		what = "untouched"
	}
	return c.App.AppCodec().MustMarshalJSON(&gs), what, true
}
