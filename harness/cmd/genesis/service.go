package main

// service: definitions and bindings (setup), one-off and repeated calls, provider answers, pausing /
// restarting / killing of request contexts, withdraw addresses, binding updates, disable / enable;
// block advancement opens and expires batches.
// State = params, definitions, bindings, withdraw addresses, request contexts (keeper iterators);
// views = bindings by owner (Bindings query), owner of a provider, stored pricing of a binding.

import (
	"bytes"
	"encoding/hex"
	"encoding/json"
	"fmt"
	"sort"

	sdkmath "cosmossdk.io/math"
	tmbytes "github.com/cometbft/cometbft/libs/bytes"
	sdk "github.com/cosmos/cosmos-sdk/types"

	"mods.irisnet.org/modules/service"
	servicetypes "mods.irisnet.org/modules/service/types"

	"verifharness/lib"
)

type serviceMod struct{}

func init() { register(serviceMod{}) }

type serviceScratch struct {
	strs       *lib.Interner
	ctxIDs     map[string]bool
	created    []string // context ids (hex) created by the history
	nRunning   int
	nResponded int
}

func (serviceMod) scratch(x *X) *serviceScratch {
	if s, ok := x.Scratch["service"]; ok {
		return s.(*serviceScratch)
	}
	s := &serviceScratch{strs: lib.NewInterner(), ctxIDs: map[string]bool{}}
	x.Scratch["service"] = s
	return s
}

func (serviceMod) Name() string   { return "service" }
func (serviceMod) Deps() []string { return nil }

// setup:    (no arguments)
// call:     A = [consumer, service index, repeated?, frequency, total, timeout]
// respond:  A = [provider (0: all, 1, 2), value]
// pause / start / kill: A = [context index]
// withdraw: A = [owner, address]
// update:   A = [provider (1, 2), service index, extra deposit, price]
// disable / enable: A = [provider, service index]
func (serviceMod) Gen(r *lib.Rand, tier string) []Step {
	n := 8 + r.Intn(14)
	if tier == "thorough" {
		n = 8 + r.Intn(40)
	}
	out := []Step{{M: "service", Op: "setup"}, {Op: "block"}}
	for i := 0; i < n; i++ {
		w := r.Weighted(4, 8, 2, 2, 1, 2, 2, 1, 1, 2)
		if i == 0 {
			w = 0
		}
		switch w {
		case 0:
			freq := int64(2 + r.Intn(4))
			out = append(out, Step{M: "service", Op: "call", A: []int64{int64(r.Intn(2)) * 3, int64(r.Intn(2)), int64(r.Weighted(1, 2)), freq, int64(r.Intn(4)) - 1, int64(1 + r.Intn(int(freq)))}})
		case 1:
			out = append(out, Step{Op: "block", A: []int64{int64(r.Weighted(3, 1) + 1)}})
			out = append(out, Step{M: "service", Op: "respond", A: []int64{int64(r.Weighted(4, 1, 1)), int64(1 + r.Intn(1000))}})
		case 2:
			out = append(out, Step{M: "service", Op: "pause", A: []int64{int64(r.Intn(4))}})
		case 3:
			out = append(out, Step{M: "service", Op: "start", A: []int64{int64(r.Intn(4))}})
		case 4:
			out = append(out, Step{M: "service", Op: "kill", A: []int64{int64(r.Intn(4))}})
		case 5:
			out = append(out, Step{M: "service", Op: "withdraw", A: []int64{int64(r.Intn(3)), int64(r.Intn(4))}})
		case 6:
			out = append(out, Step{M: "service", Op: "update", A: []int64{int64(1 + r.Intn(2)), int64(r.Intn(2)), int64(r.Intn(3)) * 1000, int64(1 + r.Intn(3))}})
		case 7:
			out = append(out, Step{M: "service", Op: "disable", A: []int64{int64(1 + r.Intn(2)), int64(r.Intn(2))}})
		case 8:
			out = append(out, Step{M: "service", Op: "enable", A: []int64{int64(1 + r.Intn(2)), int64(r.Intn(2))}})
		case 9:
			out = append(out, Step{Op: "block", A: []int64{int64(1 + r.Intn(3))}})
		}
	}
	return out
}

func (m serviceMod) Apply(x *X, st Step) string {
	a := x.A
	s := m.scratch(x)
	addr := func(i int64) string { return a.Actors[int(i)%NActors].String() }
	pickCtx := func(i int64) (string, servicetypes.RequestContext, bool) {
		if len(s.created) == 0 {
			return "", servicetypes.RequestContext{}, false
		}
		id := s.created[int(i)%len(s.created)]
		rc, found := a.Service.GetRequestContext(a.Ctx, mustHex(id))
		return id, rc, found
	}
	switch st.Op {
	case "setup":
		return svcSetup(x, a)
	case "call":
		repeated := st.A[2] == 1
		o := a.Deliver(&servicetypes.MsgCallService{ServiceName: svcNames[int(st.A[1])%len(svcNames)], Providers: []string{addr(1), addr(2)}, Consumer: addr(st.A[0]),
			Input: svcInput, ServiceFeeCap: sdk.NewCoins(sdk.NewCoin("stake", sdkmath.NewInt(10))), Timeout: st.A[5], Repeated: repeated,
			RepeatedFrequency: uint64(st.A[3]), RepeatedTotal: st.A[4]})
		if o.OK() {
			if resp, ok := o.Resp.(*servicetypes.MsgCallServiceResponse); ok {
				s.created = append(s.created, resp.RequestContextId)
			}
		}
		return o.Kind
	case "respond":
		only := ""
		if st.A[0] > 0 {
			only = addr(st.A[0])
		}
		n, kind := svcRespondAll(a, only, fmt.Sprintf("%d.5", st.A[1]))
		s.nResponded += n
		return kind
	case "pause":
		id, rc, ok := pickCtx(st.A[0])
		if !ok {
			return "rej"
		}
		return a.Deliver(&servicetypes.MsgPauseRequestContext{RequestContextId: id, Consumer: rc.Consumer}).Kind
	case "start":
		id, rc, ok := pickCtx(st.A[0])
		if !ok {
			return "rej"
		}
		return a.Deliver(&servicetypes.MsgStartRequestContext{RequestContextId: id, Consumer: rc.Consumer}).Kind
	case "kill":
		id, rc, ok := pickCtx(st.A[0])
		if !ok {
			return "rej"
		}
		return a.Deliver(&servicetypes.MsgKillRequestContext{RequestContextId: id, Consumer: rc.Consumer}).Kind
	case "withdraw":
		return a.Deliver(&servicetypes.MsgSetWithdrawAddress{Owner: addr(st.A[0]), WithdrawAddress: addr(st.A[1])}).Kind
	case "update":
		var dep sdk.Coins
		if st.A[2] > 0 {
			dep = sdk.NewCoins(sdk.NewCoin("stake", sdkmath.NewInt(st.A[2])))
		}
		return a.Deliver(&servicetypes.MsgUpdateServiceBinding{ServiceName: svcNames[int(st.A[1])%len(svcNames)], Provider: addr(st.A[0]), Deposit: dep,
			Pricing: fmt.Sprintf(`{"price":"%dstake"}`, st.A[3]), QoS: 1, Options: "{}", Owner: addr(st.A[0])}).Kind
	case "disable":
		return a.Deliver(&servicetypes.MsgDisableServiceBinding{ServiceName: svcNames[int(st.A[1])%len(svcNames)], Provider: addr(st.A[0]), Owner: addr(st.A[0])}).Kind
	case "enable":
		return a.Deliver(&servicetypes.MsgEnableServiceBinding{ServiceName: svcNames[int(st.A[1])%len(svcNames)], Provider: addr(st.A[0]), Owner: addr(st.A[0])}).Kind
	}
	return "rej"
}

func (serviceMod) Prep(x *X, c *Chain) bool {
	service.PrepForZeroHeightGenesis(c.Ctx, c.Service)
	return true
}

func svcNameRank(n string) int64 {
	all := append([]string{}, svcNames...)
	sort.Strings(all)
	for i, s := range all {
		if s == n {
			return int64(i)
		}
	}
	return -1
}

// addresses in the byte order of the raw addresses (-1: not an address, 90: outside the actor universe)
func svcAddrRank(c *Chain, bech string) int64 {
	addr, err := sdk.AccAddressFromBech32(bech)
	if err != nil {
		return -1
	}
	all := make([][]byte, 0, len(c.Actors))
	for _, a := range c.Actors {
		all = append(all, a)
	}
	sort.Slice(all, func(i, j int) bool { return bytes.Compare(all[i], all[j]) < 0 })
	for i, a := range all {
		if bytes.Equal(a, addr) {
			return int64(i)
		}
	}
	return 90
}

// addresses in the byte order of their bech32 strings (the binding keys contain provider.String())
func svcBechRank(c *Chain, bech string) int64 {
	if _, err := sdk.AccAddressFromBech32(bech); err != nil {
		return -1
	}
	var all []string
	for _, a := range c.Actors {
		all = append(all, a.String())
	}
	sort.Strings(all)
	for i, a := range all {
		if a == bech {
			return int64(i)
		}
	}
	return 90
}

func (m serviceMod) intern(x *X, tag string, v interface{}) int64 {
	bz, _ := json.Marshal(v)
	return int64(m.scratch(x).strs.Id(tag + string(bz)))
}

func (m serviceMod) pricingID(x *X, p servicetypes.Pricing) int64 { return m.intern(x, "pricing:", p) }

func (m serviceMod) bindingTerm(x *X, c *Chain, b servicetypes.ServiceBinding) string {
	pr := int64(-1)
	if p, err := servicetypes.ParsePricing(b.Pricing); err == nil {
		pr = m.pricingID(x, p)
	}
	blob := b
	return lib.App("mkBinding", lib.Z(svcNameRank(b.ServiceName)), lib.Z(svcBechRank(c, b.Provider)), lib.Z(svcBechRank(c, b.Owner)),
		lib.Z(m.intern(x, "binding:", blob)), lib.B(b.Validate() == nil), lib.Z(pr))
}

func (m serviceMod) ctxTerm(x *X, rc servicetypes.RequestContext) string {
	blob := rc
	blob.State, blob.BatchState, blob.BatchCounter, blob.BatchRequestCount, blob.BatchResponseCount = 0, 0, 0, 0, 0
	return lib.App("mkCtx", lib.Z(m.intern(x, "ctx:", blob)), lib.B(rc.Validate() == nil), lib.Z(int64(rc.State)), lib.Z(int64(rc.BatchState)),
		lib.ZU(rc.BatchCounter), lib.ZU(uint64(rc.BatchRequestCount)), lib.ZU(uint64(rc.BatchResponseCount)))
}

func (m serviceMod) paramsTerm(x *X, p servicetypes.Params) string {
	return lib.Pair(lib.Z(m.intern(x, "params:", p)), lib.B(p.Validate() == nil))
}

func (m serviceMod) defTerm(x *X, d servicetypes.ServiceDefinition) string {
	return lib.Pair(lib.Z(svcNameRank(d.Name)), lib.Pair(lib.Z(m.intern(x, "def:", d)), lib.B(d.Validate() == nil)))
}

func (m serviceMod) State(x *X, c *Chain) string {
	s := m.scratch(x)
	var ds, bs, ws, cs []string
	c.Service.IterateServiceDefinitions(c.Ctx, func(d servicetypes.ServiceDefinition) bool {
		ds = append(ds, m.defTerm(x, d))
		return false
	})
	c.Service.IterateServiceBindings(c.Ctx, func(b servicetypes.ServiceBinding) bool {
		bs = append(bs, lib.Pair(lib.Pair(lib.Z(svcNameRank(b.ServiceName)), lib.Z(svcBechRank(c, b.Provider))), m.bindingTerm(x, c, b)))
		return false
	})
	c.Service.IterateWithdrawAddresses(c.Ctx, func(owner, w sdk.AccAddress) bool {
		ws = append(ws, lib.Pair(lib.Z(svcAddrRank(c, owner.String())), lib.Z(svcAddrRank(c, w.String()))))
		return false
	})
	running := 0
	c.Service.IterateRequestContexts(c.Ctx, func(id tmbytes.HexBytes, rc servicetypes.RequestContext) bool {
		hid := fmt.Sprintf("%x", []byte(id))
		s.ctxIDs[hid] = true
		cs = append(cs, lib.Pair(ctxPlaceholder(hid), m.ctxTerm(x, rc)))
		if rc.State == servicetypes.RUNNING {
			running++
		}
		return false
	})
	if c == x.A && running > s.nRunning {
		s.nRunning = running
	}
	return lib.App("mkState", m.paramsTerm(x, c.Service.GetParams(c.Ctx)), lib.L(ds...), lib.L(bs...), lib.L(ws...), lib.L(cs...))
}

// views: bindings by owner (the Bindings query with an owner), owner of each provider, stored pricing of each binding
func (m serviceMod) views(x *X, c *Chain) string {
	type tr struct{ o, n, p int64 }
	var obs []tr
	for _, a := range c.Actors {
		for _, name := range svcNames {
			resp, err := c.Service.Bindings(c.Ctx, &servicetypes.QueryBindingsRequest{ServiceName: name, Owner: a.String()})
			if err != nil {
				continue
			}
			for _, b := range resp.ServiceBindings {
				obs = append(obs, tr{svcBechRank(c, a.String()), svcNameRank(b.ServiceName), svcBechRank(c, b.Provider)})
			}
		}
	}
	sort.Slice(obs, func(i, j int) bool {
		a, b := obs[i], obs[j]
		if a.o != b.o {
			return a.o < b.o
		}
		if a.n != b.n {
			return a.n < b.n
		}
		return a.p < b.p
	})
	var ob, ow, pr []string
	for _, t := range obs {
		ob = append(ob, lib.Pair(lib.Pair(lib.Z(t.o), lib.Z(t.n), lib.Z(t.p)), "tt"))
	}
	type pw struct{ p, o int64 }
	var pws []pw
	for _, a := range c.Actors {
		if o, found := c.Service.GetOwner(c.Ctx, a); found {
			pws = append(pws, pw{svcBechRank(c, a.String()), svcBechRank(c, o.String())})
		}
	}
	sort.Slice(pws, func(i, j int) bool { return pws[i].p < pws[j].p })
	for _, t := range pws {
		ow = append(ow, lib.Pair(lib.Z(t.p), lib.Z(t.o)))
	}
	c.Service.IterateServiceBindings(c.Ctx, func(b servicetypes.ServiceBinding) bool {
		prov, _ := sdk.AccAddressFromBech32(b.Provider)
		pr = append(pr, lib.Pair(lib.Pair(lib.Z(svcNameRank(b.ServiceName)), lib.Z(svcBechRank(c, b.Provider))), lib.Z(m.pricingID(x, c.Service.GetPricing(c.Ctx, b.ServiceName, prov)))))
		return false
	})
	return lib.Pair(lib.L(ob...), lib.L(ow...), lib.L(pr...))
}

func (m serviceMod) Genesis(x *X, c *Chain, raw json.RawMessage) string {
	s := m.scratch(x)
	var gs servicetypes.GenesisState
	c.App.AppCodec().MustUnmarshalJSON(raw, &gs)
	var ds, bs, ws, cs []string
	for _, d := range gs.Definitions {
		ds = append(ds, m.defTerm(x, d))
	}
	for _, b := range gs.Bindings {
		bs = append(bs, m.bindingTerm(x, c, b))
	}
	type kv struct{ k, v int64 }
	var wl []kv
	for k, v := range gs.WithdrawAddresses {
		wl = append(wl, kv{svcAddrRank(c, k), svcAddrRank(c, v)})
	}
	sort.Slice(wl, func(i, j int) bool { return wl[i].k < wl[j].k })
	for _, w := range wl {
		ws = append(ws, lib.Pair(lib.Z(w.k), lib.Z(w.v)))
	}
	var ids []string
	for k := range gs.RequestContexts {
		ids = append(ids, k)
	}
	sort.Slice(ids, func(i, j int) bool { return fmt.Sprintf("%x", mustHex(ids[i])) < fmt.Sprintf("%x", mustHex(ids[j])) })
	for _, k := range ids {
		key := "(-1)"
		if _, err := hex.DecodeString(k); err == nil {
			hid := fmt.Sprintf("%x", mustHex(k))
			s.ctxIDs[hid] = true
			key = ctxPlaceholder(hid)
		}
		cs = append(cs, lib.Pair(key, m.ctxTerm(x, *gs.RequestContexts[k])))
	}
	return lib.App("mkGenesis", m.paramsTerm(x, gs.Params), lib.L(ds...), lib.L(bs...), lib.L(ws...), lib.L(cs...))
}

func (m serviceMod) Cross(x *X, a, b *Chain) string {
	vb := "None"
	if x.Scratch["importOK"] == true {
		vb = "(Some " + m.views(x, b) + ")"
	}
	return m.views(x, a) + " " + vb
}

func (m serviceMod) Case(x *X, runs []string) string {
	s := m.scratch(x)
	var ids []string
	for id := range s.ctxIDs {
		ids = append(ids, id)
	}
	sort.Strings(ids)
	body := lib.L(runs...)
	for i, id := range ids {
		body = replaceAll(body, ctxPlaceholder(id), lib.Z(int64(i)))
	}
	return lib.App("mkCase", body)
}

// non-trivial: a request context is running (a batch is open or due) and at least one request was
// answered (its fee left the request escrow)
func (m serviceMod) NonTrivial(x *X) bool {
	s := m.scratch(x)
	return s.nRunning >= 1 && s.nResponded >= 1
}
