package main

// service: (first step) registered so that its PrepForZeroHeightGenesis runs before the modules that
// depend on it (oracle); its own export / import model is in the second half of this file.

import (
	"encoding/json"

	"mods.irisnet.org/modules/service"

	"verifharness/lib"
)

type serviceMod struct{}

func init() { register(serviceMod{}) }

func (serviceMod) Name() string                        { return "service" }
func (serviceMod) Deps() []string                      { return nil }
func (serviceMod) Gen(r *lib.Rand, tier string) []Step { return nil }
func (serviceMod) Apply(x *X, st Step) string          { return "rej" }
func (serviceMod) Prep(x *X, c *Chain) bool {
	service.PrepForZeroHeightGenesis(c.Ctx, c.Service)
	return true
}
func (serviceMod) State(x *X, c *Chain) string                        { return "tt" }
func (serviceMod) Genesis(x *X, c *Chain, raw json.RawMessage) string { return "tt" }
func (serviceMod) Cross(x *X, a, b *Chain) string                     { return "" }
func (serviceMod) Case(x *X, runs []string) string                    { return "tt" }
func (serviceMod) NonTrivial(x *X) bool                               { return true }
