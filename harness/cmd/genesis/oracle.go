package main

// oracle: feeds over a service defined and bound by the recipe's own setup step; feeds are started,
// providers answer the request batches (which produces feed values through the service callback),
// feeds are paused, edited, restarted; block advancement produces several batches per feed.
// State = feeds (raw 0x01), context-id index (0x02), values (0x03, feed -> batch counter -> value), the
// two state queues (0x04 / 0x05); environment = the service request contexts of the feeds.

import (
	"bytes"
	"encoding/binary"
	"encoding/hex"
	"encoding/json"
	"fmt"
	"os"
	"sort"

	sdkmath "cosmossdk.io/math"
	storetypes "cosmossdk.io/store/types"
	gogotypes "github.com/cosmos/gogoproto/types"
	sdk "github.com/cosmos/cosmos-sdk/types"

	"mods.irisnet.org/modules/oracle"
	oracletypes "mods.irisnet.org/modules/oracle/types"
	servicetypes "mods.irisnet.org/modules/service/types"

	"verifharness/lib"
)

type oracleMod struct{}

func init() { register(oracleMod{}) }

type oracleScratch struct {
	strs     *lib.Interner
	ctxIDs   map[string]bool
	nRunning int
	maxVals  int
	nPaused  int
}

func (oracleMod) scratch(x *X) *oracleScratch {
	if s, ok := x.Scratch["oracle"]; ok {
		return s.(*oracleScratch)
	}
	s := &oracleScratch{strs: lib.NewInterner(), ctxIDs: map[string]bool{}}
	x.Scratch["oracle"] = s
	return s
}

func (oracleMod) Name() string   { return "oracle" }
func (oracleMod) Deps() []string { return []string{"service"} }

// ---------------------------------------------------------------- service flow shared with service.go

const svcSchemas = `{"input":{"type":"object"},"output":{"type":"object"}}`
const svcPricing = `{"price":"2stake"}`
const svcInput = `{"header":{},"body":{}}`
const svcResult = `{"code":200,"message":""}`

var svcNames = []string{"price-svc", "other-svc"}

// svcSetup defines the services (author = actor 0) and binds providers 1 and 2 to each.
func svcSetup(x *X, a *Chain) string {
	kind := "ok"
	for _, name := range svcNames {
		o := a.Deliver(&servicetypes.MsgDefineService{Name: name, Description: "a service", Tags: []string{"t1"}, Author: a.Actors[0].String(), AuthorDescription: "author", Schemas: svcSchemas})
		if !o.OK() {
			kind = o.Kind
			x.Notes = append(x.Notes, "service setup: define failed: "+o.Err)
		}
		for _, p := range []int{1, 2} {
			o := a.Deliver(&servicetypes.MsgBindService{ServiceName: name, Provider: a.Actors[p].String(), Deposit: sdk.NewCoins(sdk.NewCoin("stake", sdkmath.NewInt(100000))),
				Pricing: svcPricing, QoS: 1, Options: "{}", Owner: a.Actors[p].String()})
			if !o.OK() {
				kind = o.Kind
				x.Notes = append(x.Notes, "service setup: bind failed: "+o.Err)
			}
		}
	}
	return kind
}

// svcRespondAll answers every active request (optionally only those of one provider) with the given output body value.
func svcRespondAll(a *Chain, onlyProvider string, val string) (n int, kind string) {
	store := a.Ctx.KVStore(a.App.GetKey(servicetypes.StoreKey))
	it := a.Service.AllActiveRequestsIterator(store)
	var ids [][]byte
	for ; it.Valid(); it.Next() {
		var id gogotypes.BytesValue
		a.App.AppCodec().MustUnmarshal(it.Value(), &id)
		ids = append(ids, append([]byte{}, id.Value...))
	}
	it.Close()
	kind = "rej"
	for _, id := range ids {
		req, found := a.Service.GetRequest(a.Ctx, id)
		if !found || (onlyProvider != "" && req.Provider != onlyProvider) {
			continue
		}
		o := a.Deliver(&servicetypes.MsgRespondService{RequestId: hex.EncodeToString(id), Provider: req.Provider, Result: svcResult,
			Output: fmt.Sprintf(`{"header":{},"body":{"last":"%s"}}`, val)})
		if o.OK() {
			n++
			kind = "ok"
		} else if os.Getenv("VERIF_DEBUG") != "" {
			fmt.Fprintln(os.Stderr, "respond:", o.Err)
		}
	}
	if os.Getenv("VERIF_DEBUG") != "" {
		fmt.Fprintln(os.Stderr, "respond: active requests", len(ids), "height", a.Height)
	}
	return n, kind
}

// ---------------------------------------------------------------- recipe

var oracleFeeds = []string{"feedA", "feedB", "feedC"}
var oracleAggs = []string{"avg", "max", "min"}

// setup:   (no arguments)
// create:  A = [creator, feed index, latest history, frequency, aggregate function, threshold]
// start:   A = [feed index]     pause: A = [feed index]
// edit:    A = [feed index, latest history]
// respond: A = [provider (0: both, 1, 2), value]
func (oracleMod) Gen(r *lib.Rand, tier string) []Step {
	n := 8 + r.Intn(14)
	if tier == "thorough" {
		n = 8 + r.Intn(40)
	}
	out := []Step{{M: "oracle", Op: "setup"}, {Op: "block"}}
	for i := 0; i < n; i++ {
		w := r.Weighted(2, 3, 1, 1, 10, 2)
		if i == 0 {
			w = 0
		}
		if i == 1 {
			w = 1
		}
		switch w {
		case 0:
			out = append(out, Step{M: "oracle", Op: "create", A: []int64{int64(r.Intn(2)), int64(r.Intn(len(oracleFeeds))), int64(1 + r.Intn(4)), int64(2 + r.Intn(3)), int64(r.Intn(3)), int64(1 + r.Intn(2))}})
		case 1:
			out = append(out, Step{M: "oracle", Op: "start", A: []int64{int64(r.Intn(3))}})
		case 2:
			out = append(out, Step{M: "oracle", Op: "pause", A: []int64{int64(r.Intn(3))}})
		case 3:
			out = append(out, Step{M: "oracle", Op: "edit", A: []int64{int64(r.Intn(3)), int64(1 + r.Intn(4))}})
		case 4:
			// a block boundary (the end blocker opens the due batches), then the providers answer
			out = append(out, Step{Op: "block", A: []int64{int64(r.Weighted(3, 1) + 1)}})
			out = append(out, Step{M: "oracle", Op: "respond", A: []int64{int64(r.Weighted(4, 1, 1)), int64(1 + r.Intn(1000))}})
		case 5:
			out = append(out, Step{Op: "block", A: []int64{int64(1 + r.Intn(2))}})
		}
	}
	return out
}

func (oracleMod) feedList(c *Chain) []oracletypes.Feed {
	var fs []oracletypes.Feed
	c.Oracle.IteratorFeeds(c.Ctx, func(f oracletypes.Feed) { fs = append(fs, f) })
	return fs
}

func (m oracleMod) Apply(x *X, st Step) string {
	a := x.A
	pick := func(i int64) (oracletypes.Feed, bool) {
		fs := m.feedList(a)
		if len(fs) == 0 {
			return oracletypes.Feed{}, false
		}
		return fs[int(i)%len(fs)], true
	}
	switch st.Op {
	case "setup":
		return svcSetup(x, a)
	case "create":
		freq := uint64(st.A[3])
		return a.Deliver(&oracletypes.MsgCreateFeed{FeedName: oracleFeeds[int(st.A[1])%len(oracleFeeds)], LatestHistory: uint64(st.A[2]), Description: "a feed",
			Creator: a.Actors[int(st.A[0])%2].String(), ServiceName: svcNames[0], Providers: []string{a.Actors[1].String(), a.Actors[2].String()}, Input: svcInput,
			Timeout: int64(freq) - 1, ServiceFeeCap: sdk.NewCoins(sdk.NewCoin("stake", sdkmath.NewInt(10))), RepeatedFrequency: freq,
			AggregateFunc: oracleAggs[int(st.A[4])%len(oracleAggs)], ValueJsonPath: "last", ResponseThreshold: uint32(st.A[5])}).Kind
	case "start":
		f, ok := pick(st.A[0])
		if !ok {
			return "rej"
		}
		return a.Deliver(&oracletypes.MsgStartFeed{FeedName: f.FeedName, Creator: f.Creator}).Kind
	case "pause":
		f, ok := pick(st.A[0])
		if !ok {
			return "rej"
		}
		return a.Deliver(&oracletypes.MsgPauseFeed{FeedName: f.FeedName, Creator: f.Creator}).Kind
	case "edit":
		f, ok := pick(st.A[0])
		if !ok {
			return "rej"
		}
		return a.Deliver(&oracletypes.MsgEditFeed{FeedName: f.FeedName, Description: "[do-not-modify]", LatestHistory: uint64(st.A[1]), Creator: f.Creator}).Kind
	case "respond":
		only := ""
		if st.A[0] > 0 {
			only = a.Actors[st.A[0]].String()
		}
		_, kind := svcRespondAll(a, only, fmt.Sprintf("%d.5", st.A[1]))
		return kind
	}
	return "rej"
}

func (oracleMod) Prep(x *X, c *Chain) bool {
	oracle.PrepForZeroHeightGenesis(c.Ctx, c.Oracle)
	return true
}

func oracleNameRank(n string) int64 {
	all := append([]string{}, oracleFeeds...)
	sort.Strings(all)
	for i, s := range all {
		if s == n {
			return int64(i)
		}
	}
	return -1
}

// context ids are numbered by the byte order of all ids seen on A (fixed when the case is assembled)
func ctxPlaceholder(id string) string { return "@CTX" + id + "@" }

func (m oracleMod) feedTerm(x *X, c *Chain, f oracletypes.Feed) string {
	s := m.scratch(x)
	id := fmt.Sprintf("%x", mustHex(f.RequestContextID))
	s.ctxIDs[id] = true
	return lib.App("mkFeed", lib.Z(oracleNameRank(f.FeedName)), lib.B(oracletypes.ValidateFeedName(f.FeedName) == nil), lib.Z(int64(s.strs.Id("d:"+f.Description))),
		lib.Z(int64(len(f.Description))), lib.Z(int64(s.strs.Id("a:"+f.AggregateFunc))), lib.B(oracletypes.ValidateAggregateFunc(f.AggregateFunc) == nil),
		lib.Z(int64(s.strs.Id("p:"+f.ValueJsonPath))), lib.ZU(f.LatestHistory), ctxPlaceholder(id), lib.Z(actorIdx(c, f.Creator)))
}

func mustHex(s string) []byte {
	b, _ := hex.DecodeString(s)
	return b
}

func (m oracleMod) valueTerm(x *X, v oracletypes.FeedValue) string {
	s := m.scratch(x)
	return lib.Pair(lib.Z(int64(s.strs.Id("v:"+v.Data))), lib.Z(v.Timestamp.Unix()))
}

func (m oracleMod) State(x *X, c *Chain) string {
	s := m.scratch(x)
	store := c.Ctx.KVStore(c.App.GetKey(oracletypes.StoreKey))
	cdc := c.App.AppCodec()
	var fs, idx, vs, run, pau []string
	it := storetypes.KVStorePrefixIterator(store, oracletypes.GetFeedPrefixKey())
	for ; it.Valid(); it.Next() {
		var f oracletypes.Feed
		cdc.MustUnmarshal(it.Value(), &f)
		name := string(it.Key()[len(oracletypes.GetFeedPrefixKey()):])
		fs = append(fs, lib.Pair(lib.Z(oracleNameRank(name)), m.feedTerm(x, c, f)))
	}
	it.Close()
	pfx := oracletypes.GetReqCtxIDKey(nil)
	it = storetypes.KVStorePrefixIterator(store, pfx)
	for ; it.Valid(); it.Next() {
		var sv gogotypes.StringValue
		cdc.MustUnmarshal(it.Value(), &sv)
		id := fmt.Sprintf("%x", it.Key()[len(pfx):])
		s.ctxIDs[id] = true
		idx = append(idx, lib.Pair(ctxPlaceholder(id), lib.Z(oracleNameRank(sv.Value))))
	}
	it.Close()
	// values: 0x03 | name | 0x00 | be64 counter
	type grp struct {
		name  string
		items []string
	}
	var groups []grp
	it = storetypes.KVStorePrefixIterator(store, oracletypes.PrefixFeedValueKey)
	maxVals := 0
	for ; it.Valid(); it.Next() {
		k := it.Key()[1:]
		name := string(k[:len(k)-9])
		ctr := binary.BigEndian.Uint64(k[len(k)-8:])
		var v oracletypes.FeedValue
		cdc.MustUnmarshal(it.Value(), &v)
		if len(groups) == 0 || groups[len(groups)-1].name != name {
			groups = append(groups, grp{name: name})
		}
		g := &groups[len(groups)-1]
		g.items = append(g.items, lib.Pair(lib.ZU(ctr), m.valueTerm(x, v)))
		if len(g.items) > maxVals {
			maxVals = len(g.items)
		}
	}
	it.Close()
	for _, g := range groups {
		vs = append(vs, lib.Pair(lib.Z(oracleNameRank(g.name)), lib.L(g.items...)))
		// the FeedValue query shows the same number of values
		if q, err := c.Oracle.FeedValue(c.Ctx, &oracletypes.QueryFeedValueRequest{FeedName: g.name}); err != nil || len(q.FeedValues) != len(g.items) {
			x.Notes = append(x.Notes, "oracle: FeedValue("+g.name+") disagrees with the store")
		}
	}
	for _, q := range []struct {
		pfx []byte
		out *[]string
	}{{oracletypes.PrefixFeedRunningStateKey, &run}, {oracletypes.PrefixFeedPauseStateKey, &pau}} {
		it = storetypes.KVStorePrefixIterator(store, q.pfx)
		for ; it.Valid(); it.Next() {
			name := string(bytes.TrimPrefix(it.Key()[1:], []byte{0x00}))
			*q.out = append(*q.out, lib.Pair(lib.Z(oracleNameRank(name)), "tt"))
		}
		it.Close()
	}
	if c == x.A {
		if len(run) > s.nRunning {
			s.nRunning = len(run)
		}
		if maxVals > s.maxVals {
			s.maxVals = maxVals
		}
		s.nPaused = len(pau)
	}
	return lib.App("mkState", lib.L(fs...), lib.L(idx...), lib.L(vs...), lib.L(run...), lib.L(pau...))
}

// the environment: the service request contexts of A's feeds as the given chain knows them
func (m oracleMod) Env(x *X, a, c *Chain) string {
	var out []string
	seen := map[string]bool{}
	for _, f := range m.feedList(a) {
		id := fmt.Sprintf("%x", mustHex(f.RequestContextID))
		if seen[id] {
			continue
		}
		seen[id] = true
		if rc, found := c.Service.GetRequestContext(c.Ctx, mustHex(f.RequestContextID)); found {
			out = append(out, lib.Pair(ctxPlaceholder(id), lib.Pair(lib.Z(int64(rc.State)), lib.ZU(rc.BatchCounter))))
		}
	}
	sort.Strings(out) // re-sorted by rank in Case
	return lib.L(out...)
}

func (m oracleMod) Genesis(x *X, c *Chain, raw json.RawMessage) string {
	var gs oracletypes.GenesisState
	c.App.AppCodec().MustUnmarshalJSON(raw, &gs)
	var es []string
	for _, e := range gs.Entries {
		var vs []string
		for _, v := range e.Values {
			vs = append(vs, m.valueTerm(x, v))
		}
		es = append(es, lib.Pair(m.feedTerm(x, c, e.Feed), lib.Z(int64(e.State)), lib.L(vs...)))
	}
	return lib.L(es...)
}

func (oracleMod) Cross(x *X, a, b *Chain) string { return "" }

// Case: runs were printed as mkRun sA gA val imp sB gB; the two environments are prepended by runPath's
// caller through EnvTerms (see main.go); context-id placeholders are replaced by ranks
func (m oracleMod) Case(x *X, runs []string) string {
	s := m.scratch(x)
	var ids []string
	for id := range s.ctxIDs {
		ids = append(ids, id)
	}
	sort.Strings(ids)
	body := lib.L(runs...)
	for i, id := range ids {
		body = replaceAll(body, ctxPlaceholder(id), lib.Z(int64(i)))
	}
	return lib.App("mkCase", body)
}

// non-trivial: a feed is running (time-bound: a batch is due) and some feed holds at least two values
// (so that its history is at stake) or a feed is paused
func (m oracleMod) NonTrivial(x *X) bool {
	s := m.scratch(x)
	return s.nRunning >= 1 && s.maxVals >= 2
}
