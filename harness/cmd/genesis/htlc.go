package main

// htlc: plain hash-locked contracts (with and without timestamp) and cross-chain transfers
// (incoming / outgoing) over two assets; claims; expiry by block advancement.
// State = params, contracts (id order), expiration queue (raw store keys), asset supplies, previous
// block time.

import (
	"bytes"
	"crypto/sha256"
	"encoding/binary"
	"encoding/hex"
	"encoding/json"
	"fmt"
	"sort"
	"strings"
	"time"

	sdkmath "cosmossdk.io/math"
	storetypes "cosmossdk.io/store/types"
	tmbytes "github.com/cometbft/cometbft/libs/bytes"
	"github.com/cosmos/cosmos-sdk/codec"
	sdk "github.com/cosmos/cosmos-sdk/types"

	"mods.irisnet.org/modules/htlc"
	htlctypes "mods.irisnet.org/modules/htlc/types"
	"mods.irisnet.org/simapp"

	"verifharness/lib"
)

type htlcMod struct{}

func init() { register(htlcMod{}); genesisTweaks = append(genesisTweaks, mergeHTLC) }

// denomRank: the fixed denomination universe in byte order.
var denomUniverse = []string{"htltbnb", "htltinc", "stake", "uatom", "ubtc", "ueth"}

func denomRank(d string) int64 {
	for i, s := range denomUniverse {
		if s == d {
			return int64(i)
		}
	}
	return -1
}

const htlcDeputy = 3 // actor index of the deputy of both assets

func htlcGenesis(c *lib.Env) *htlctypes.GenesisState {
	dep := lib.ActorAddr(htlcDeputy).String()
	mk := func(denom string, limit int64, timeLimited bool, active bool) htlctypes.AssetParam {
		return htlctypes.AssetParam{
			Denom: denom,
			SupplyLimit: htlctypes.SupplyLimit{
				Limit: sdkmath.NewInt(limit), TimeLimited: timeLimited, TimePeriod: time.Hour, TimeBasedLimit: sdkmath.NewInt(limit / 10),
			},
			Active: active, DeputyAddress: dep, FixedFee: sdkmath.NewInt(1000),
			MinSwapAmount: sdkmath.NewInt(1), MaxSwapAmount: sdkmath.NewInt(1000000000000),
			MinBlockLock: htlctypes.MinTimeLock, MaxBlockLock: htlctypes.MaxTimeLock,
		}
	}
	zero := func(d string) sdk.Coin { return sdk.NewCoin(d, sdkmath.ZeroInt()) }
	sup := func(d string) htlctypes.AssetSupply {
		return htlctypes.NewAssetSupply(zero(d), zero(d), zero(d), zero(d), 0)
	}
	return &htlctypes.GenesisState{
		Params:            htlctypes.Params{AssetParams: []htlctypes.AssetParam{mk("htltbnb", 350000000000000, true, true), mk("htltinc", 100000000000000, false, true)}},
		Htlcs:             []htlctypes.HTLC{},
		Supplies:          []htlctypes.AssetSupply{sup("htltbnb"), sup("htltinc")},
		PreviousBlockTime: htlctypes.DefaultPreviousBlockTime,
	}
}

// mergeHTLC is the genesis tweak of every chain: two cross-chain assets.
func mergeHTLC(cdc codec.Codec, state simapp.GenesisState) simapp.GenesisState {
	state[htlctypes.ModuleName] = cdc.MustMarshalJSON(htlcGenesis(nil))
	return state
}

type htlcScratch struct {
	ids     [][]byte // ids of all contracts created on A, creation order
	secrets [][]byte // their secrets
	hl      *lib.Interner
	sec     *lib.Interner
	rank    map[string]int64
	nOpen   int
	nClosed int
	nZeroTs int
}

func (htlcMod) scratch(x *X) *htlcScratch {
	if s, ok := x.Scratch["htlc"]; ok {
		return s.(*htlcScratch)
	}
	s := &htlcScratch{hl: lib.NewInterner(), sec: lib.NewInterner()}
	x.Scratch["htlc"] = s
	return s
}

func (htlcMod) Name() string   { return "htlc" }
func (htlcMod) Deps() []string { return nil }

// create: A = [sender, to, denom index, amount, secret index, timestamp kind, time lock, kind]
//
//	kind 0 plain, 1 incoming transfer (sender := deputy), 2 outgoing transfer (to := deputy)
//	timestamp kind 0: zero, 1: current block time
//
// claim:  A = [contract index (creation order), claimant]
// setparams: A = [variant], MsgUpdateParams by the authority (see Apply)
func (htlcMod) Gen(r *lib.Rand, tier string) []Step {
	var out []Step
	n := 3 + r.Intn(8)
	if tier == "thorough" {
		n = 3 + r.Intn(20)
	}
	created := 0
	out = append(out, Step{Op: "block"})
	for i := 0; i < n; i++ {
		if r.Chance(1, 25) {
			out = append(out, Step{M: "htlc", Op: "setparams", A: []int64{int64(r.Intn(4))}})
			continue
		}
		switch r.Weighted(6, 3, 2, 1) {
		case 0:
			kind := int64(r.Weighted(5, 3, 2))
			tsk := int64(1)
			if kind == 0 && r.Chance(1, 3) {
				tsk = 0
			}
			if kind != 0 && r.Chance(1, 12) {
				tsk = 0 // rejected: transfers need a recent timestamp
			}
			amt := int64(1 + r.Intn(100000))
			if kind == 2 {
				amt = int64(1001 + r.Intn(5000))
			}
			if r.Chance(1, 15) {
				amt = 0 // rejected
			}
			lock := int64(50 + r.Intn(30))
			if r.Chance(1, 15) {
				lock = 49 // rejected
			}
			denom := int64(r.Intn(4)) // plain: any of stake/uatom/ubtc/ueth; transfers: one of the two assets
			out = append(out, Step{M: "htlc", Op: "create", A: []int64{int64(r.Intn(3)), int64(r.Intn(3)), denom, amt, int64(created), tsk, lock, kind}})
			created++
		case 1:
			if created > 0 {
				out = append(out, Step{M: "htlc", Op: "claim", A: []int64{int64(r.Intn(created)), int64(r.Intn(3)), int64(r.Weighted(8, 1))}})
			}
		case 2:
			out = append(out, Step{Op: "block", A: []int64{int64(1 + r.Intn(3))}})
		case 3:
			out = append(out, Step{Op: "block", A: []int64{int64(45 + r.Intn(40))}})
		}
	}
	return out
}

func htlcSecret(i int64) []byte {
	h := sha256.Sum256([]byte(fmt.Sprintf("verif-secret-%d", i)))
	return h[:]
}

func (m htlcMod) Apply(x *X, st Step) string {
	s := m.scratch(x)
	a := x.A
	switch st.Op {
	case "create":
		sender, to := a.Actors[st.A[0]%3], a.Actors[st.A[1]%3]
		kind := st.A[7]
		var denom string
		switch kind {
		case 0:
			denom = []string{"stake", "uatom", "ubtc", "ueth"}[st.A[2]%4]
		default:
			denom = []string{"htltbnb", "htltinc"}[st.A[2]%2]
		}
		if kind == 1 {
			sender = a.Actors[htlcDeputy]
		}
		if kind == 2 {
			to = a.Actors[htlcDeputy]
		}
		var ts uint64
		if st.A[5] == 1 {
			ts = uint64(a.Time.Unix())
		}
		secret := htlcSecret(st.A[4])
		hl := htlctypes.GetHashLock(secret, ts)
		amount := sdk.Coins{sdk.Coin{Denom: denom, Amount: sdkmath.NewInt(st.A[3])}}
		if kind == 0 && st.A[3]%7 == 0 && st.A[3] > 0 {
			// multi-coin plain contract
			amount = sdk.NewCoins(sdk.NewCoin("stake", sdkmath.NewInt(st.A[3])), sdk.NewCoin("ueth", sdkmath.NewInt(st.A[3]+1)))
		}
		recv, send := "", ""
		if kind != 0 {
			recv, send = "receiver-on-other-chain", "sender-on-other"
		}
		msg := &htlctypes.MsgCreateHTLC{Sender: sender.String(), To: to.String(), ReceiverOnOtherChain: recv, SenderOnOtherChain: send,
			Amount: amount, HashLock: hex.EncodeToString(hl), Timestamp: ts, TimeLock: uint64(st.A[6]), Transfer: kind != 0}
		o := a.Deliver(msg)
		if o.OK() {
			resp := o.Resp.(*htlctypes.MsgCreateHTLCResponse)
			id, _ := hex.DecodeString(resp.Id)
			s.ids = append(s.ids, id)
			s.secrets = append(s.secrets, secret)
		}
		return o.Kind
	case "claim":
		if len(s.ids) == 0 {
			return "rej"
		}
		k := int(st.A[0]) % len(s.ids)
		secret := s.secrets[k]
		if len(st.A) > 2 && st.A[2] == 1 {
			secret = htlcSecret(9999) // wrong secret
		}
		o := a.Deliver(&htlctypes.MsgClaimHTLC{Sender: a.Actors[st.A[1]%3].String(), Id: strings.ToUpper(hex.EncodeToString(s.ids[k])), Secret: hex.EncodeToString(secret)})
		return o.Kind
	case "setparams":
		// MsgUpdateParams by the authority (the gov module account); A = [variant]:
		// 0 htltbnb is deactivated, 1 htltinc is dropped from the parameters, 2 the limit of htltbnb is cut to 1,
		// 3 limits raised (0-2 can leave stored supplies / open transfers uncovered: known finding, clause 7)
		ps := htlcGenesis(nil).Params.AssetParams
		switch st.A[0] % 4 {
		case 0:
			ps[0].Active = false
		case 1:
			ps = ps[:1]
		case 2:
			ps[0].SupplyLimit.Limit = sdkmath.NewInt(1)
			ps[0].SupplyLimit.TimeBasedLimit = sdkmath.NewInt(1)
		case 3: // harmless: both limits doubled, other fee
			ps[0].SupplyLimit.Limit = ps[0].SupplyLimit.Limit.MulRaw(2)
			ps[1].SupplyLimit.Limit = ps[1].SupplyLimit.Limit.MulRaw(2)
			ps[1].FixedFee = sdkmath.NewInt(7)
		}
		o := a.Deliver(&htlctypes.MsgUpdateParams{Authority: lib.ModuleAddr("gov").String(), Params: htlctypes.Params{AssetParams: ps}})
		return o.Kind
	}
	return "rej"
}

func (htlcMod) Prep(x *X, c *Chain) bool {
	htlc.PrepForZeroHeightGenesis(c.Ctx, c.Htlc)
	return true
}

// id rank: byte order among all ids created on A (fixed at the first use, after the history ran)
func (m htlcMod) idRank(x *X, id []byte) int64 {
	s := m.scratch(x)
	if s.rank == nil {
		s.rank = map[string]int64{}
		sorted := append([][]byte{}, s.ids...)
		sort.Slice(sorted, func(i, j int) bool { return bytes.Compare(sorted[i], sorted[j]) < 0 })
		for i, b := range sorted {
			s.rank[string(b)] = int64(i)
		}
	}
	if v, ok := s.rank[string(id)]; ok {
		return v
	}
	x.Notes = append(x.Notes, fmt.Sprintf("htlc id %X was not created by the history", id))
	return -1
}

func actorIdx(c *Chain, bech string) int64 {
	for i, a := range c.Actors {
		if a.String() == bech {
			return int64(i)
		}
	}
	return -1
}

func coinTerm(c sdk.Coin) string { return lib.Pair(lib.Z(denomRank(c.Denom)), lib.ZI(c.Amount)) }
func coinsTerm(cs sdk.Coins) string {
	var out []string
	for _, c := range cs {
		out = append(out, coinTerm(c))
	}
	return lib.L(out...)
}

func (m htlcMod) htlcTerm(x *X, c *Chain, h htlctypes.HTLC) string {
	s := m.scratch(x)
	id, _ := hex.DecodeString(h.Id)
	sec := int64(0)
	if h.Secret != "" {
		sec = int64(s.sec.Id(strings.ToLower(h.Secret))) + 1
	}
	if len(h.Id) != 64 || len(h.HashLock) != 64 || (h.Secret != "" && len(h.Secret) != 64) {
		x.Notes = append(x.Notes, "htlc with an id / hash lock / secret that is not 64 hex digits: "+h.Id)
	}
	return lib.App("mkHtlc", lib.Z(m.idRank(x, id)), lib.Z(actorIdx(c, h.Sender)), lib.Z(actorIdx(c, h.To)),
		lib.Z(int64(len(h.ReceiverOnOtherChain))), lib.Z(int64(len(h.SenderOnOtherChain))), coinsTerm(h.Amount),
		lib.Z(int64(s.hl.Id(strings.ToLower(h.HashLock)))), lib.Z(sec), lib.ZU(h.Timestamp), lib.ZU(h.ExpirationHeight),
		lib.Z(int64(h.State)), lib.ZU(h.ClosedBlock), lib.B(h.Transfer), lib.Z(int64(h.Direction)))
}

func assetTerm(c *Chain, a htlctypes.AssetParam) string {
	return lib.App("mkAsset", lib.Z(denomRank(a.Denom)), lib.ZI(a.SupplyLimit.Limit), lib.B(a.SupplyLimit.TimeLimited),
		lib.Z(int64(a.SupplyLimit.TimePeriod)), lib.ZI(a.SupplyLimit.TimeBasedLimit), lib.B(a.Active), lib.Z(actorIdx(c, a.DeputyAddress)),
		lib.ZI(a.FixedFee), lib.ZI(a.MinSwapAmount), lib.ZI(a.MaxSwapAmount), lib.ZU(a.MinBlockLock), lib.ZU(a.MaxBlockLock))
}

func supplyTerm(s htlctypes.AssetSupply) string {
	return lib.App("mkSupply", coinTerm(s.IncomingSupply), coinTerm(s.OutgoingSupply), coinTerm(s.CurrentSupply),
		coinTerm(s.TimeLimitedCurrentSupply), lib.Z(int64(s.TimeElapsed)))
}

func prevTerm(t time.Time, found bool) string {
	if !found || t.Equal(htlctypes.DefaultPreviousBlockTime) {
		return "None"
	}
	return "(Some " + lib.Z(t.Unix()) + ")"
}

func (m htlcMod) State(x *X, c *Chain) string {
	s := m.scratch(x)
	// parameters through the gRPC query
	pr, err := c.Htlc.Params(c.Ctx, &htlctypes.QueryParamsRequest{})
	if err != nil {
		panic(err)
	}
	var assets []string
	for _, a := range pr.Params.AssetParams {
		assets = append(assets, assetTerm(c, a))
	}
	// contracts: ids from the store iterator, each read through the gRPC query
	var hs []string
	nOpen, nClosed, nZero := 0, 0, 0
	c.Htlc.IterateHTLCs(c.Ctx, func(id tmbytes.HexBytes, _ htlctypes.HTLC) bool {
		resp, err := c.Htlc.HTLC(c.Ctx, &htlctypes.QueryHTLCRequest{Id: hex.EncodeToString(id)})
		if err != nil {
			x.Notes = append(x.Notes, fmt.Sprintf("htlc %X is in the store but the query fails: %v", id, err))
			return false
		}
		h := *resp.Htlc
		if h.State == htlctypes.Open {
			nOpen++
			if h.Timestamp == 0 {
				nZero++
			}
		} else {
			nClosed++
		}
		hs = append(hs, lib.Pair(lib.Z(m.idRank(x, id)), m.htlcTerm(x, c, h)))
		return false
	})
	if c == x.A {
		s.nOpen, s.nClosed, s.nZeroTs = nOpen, nClosed, nZero
	}
	// expiration queue: raw keys 0x02 | be64 height | id
	var q []string
	st := c.Ctx.KVStore(c.App.GetKey(htlctypes.StoreKey))
	it := storetypes.KVStorePrefixIterator(st, htlctypes.HTLCExpiredQueueKey)
	for ; it.Valid(); it.Next() {
		k := it.Key()
		height := binary.BigEndian.Uint64(k[1:9])
		q = append(q, lib.Pair(lib.Pair(lib.ZU(height), lib.Z(m.idRank(x, k[9:]))), "tt"))
	}
	it.Close()
	// supplies through the gRPC query
	sr, err := c.Htlc.AssetSupplies(c.Ctx, &htlctypes.QueryAssetSuppliesRequest{})
	if err != nil {
		panic(err)
	}
	var sups []string
	for _, sp := range sr.AssetSupplies {
		sups = append(sups, lib.Pair(lib.Z(denomRank(sp.CurrentSupply.Denom)), supplyTerm(sp)))
	}
	t, found := c.Htlc.GetPreviousBlockTime(c.Ctx)
	return lib.App("mkState", lib.L(assets...), lib.L(hs...), lib.L(q...), lib.L(sups...), prevTerm(t, found))
}

func (m htlcMod) Genesis(x *X, c *Chain, raw json.RawMessage) string {
	var gs htlctypes.GenesisState
	c.App.AppCodec().MustUnmarshalJSON(raw, &gs)
	var assets, hs, sups []string
	for _, a := range gs.Params.AssetParams {
		assets = append(assets, assetTerm(c, a))
	}
	for _, h := range gs.Htlcs {
		hs = append(hs, m.htlcTerm(x, c, h))
	}
	for _, sp := range gs.Supplies {
		sups = append(sups, supplyTerm(sp))
	}
	return lib.App("mkGenesis", lib.L(assets...), lib.L(hs...), lib.L(sups...), prevTerm(gs.PreviousBlockTime, true))
}

func (htlcMod) Cross(x *X, a, b *Chain) string { return "" }

func (m htlcMod) Case(x *X, runs []string) string {
	return lib.App("mkCase", lib.Z(x.A.Height), lib.L(runs...))
}

// non-trivial: at least one open contract (time-bound) and at least one closed one (its escrow emptied)
func (m htlcMod) NonTrivial(x *X) bool {
	s := m.scratch(x)
	return s.nOpen >= 1 && s.nClosed >= 1
}
