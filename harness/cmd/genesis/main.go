// genesis: driver of property C12 (export / import of every module).
//
// One history = a list of module operations executed on a chain A through the message router
// (plus block boundaries).  Then, for every module under check and for both export paths
// ("as-is" and "after the module's own PrepForZeroHeightGenesis"):
//
//	ExportGenesis(A) -> ValidateGenesis -> InitGenesis into the module's (wiped) store on a FRESH
//	chain B under recover() -> ExportGenesis(B) -> module state / gRPC queries on A and B
//
// and everything is printed as one Gallina term of the module's `case` type (coq/Genesis/<M>.v).
// Stream name = module name (the history then consists of that module's recipe, plus the recipes
// of the modules it depends on); stream "all" runs every recipe on one chain.
package main

import (
	"encoding/json"
	"fmt"
	"sort"
	"time"

	sdkmath "cosmossdk.io/math"
	storetypes "cosmossdk.io/store/types"
	abci "github.com/cometbft/cometbft/abci/types"
	tmproto "github.com/cometbft/cometbft/proto/tendermint/types"
	"github.com/cosmos/cosmos-sdk/codec"
	sdk "github.com/cosmos/cosmos-sdk/types"
	"github.com/cosmos/cosmos-sdk/types/module"

	coinswapkeeper "mods.irisnet.org/modules/coinswap/keeper"
	farmkeeper "mods.irisnet.org/modules/farm/keeper"
	htlckeeper "mods.irisnet.org/modules/htlc/keeper"
	mtkeeper "mods.irisnet.org/modules/mt/keeper"
	nftkeeper "mods.irisnet.org/modules/nft/keeper"
	oraclekeeper "mods.irisnet.org/modules/oracle/keeper"
	randomkeeper "mods.irisnet.org/modules/random/keeper"
	recordkeeper "mods.irisnet.org/modules/record/keeper"
	servicekeeper "mods.irisnet.org/modules/service/keeper"
	tokenkeeper "mods.irisnet.org/modules/token/keeper"
	"mods.irisnet.org/simapp"

	"verifharness/lib"
)

// Step is one operation in the vocabulary of a module recipe (see <module>.go), or a block boundary.
type Step struct {
	M  string   `json:"m"`           // module ("" with Op "block": a block boundary)
	Op string   `json:"op"`          // operation
	A  []int64  `json:"a,omitempty"` // small integer arguments (actor index, object index, amount, ...)
	S  []string `json:"s,omitempty"` // string arguments (big integers in decimal, names)
}

// History: the modules under check and the operations.
type History struct {
	Mods  []string
	Steps []Step
}

// Chain = an Env together with the ten keepers.
type Chain struct {
	*lib.Env
	Coinswap coinswapkeeper.Keeper
	Farm     farmkeeper.Keeper
	Htlc     htlckeeper.Keeper
	Mt       mtkeeper.Keeper
	Nft      nftkeeper.Keeper
	Oracle   oraclekeeper.Keeper
	Random   randomkeeper.Keeper
	Record   recordkeeper.Keeper
	Service  servicekeeper.Keeper
	Token    tokenkeeper.Keeper
}

// NActors of every chain.
const NActors = 4

// genesisTweaks are applied to the default genesis of every chain (registered by the module files).
var genesisTweaks []func(cdc codec.Codec, state simapp.GenesisState) simapp.GenesisState

func newChain() *Chain {
	c := &Chain{}
	merge := func(cdc codec.Codec, state simapp.GenesisState) simapp.GenesisState {
		for _, t := range genesisTweaks {
			state = t(cdc, state)
		}
		return state
	}
	c.Env = lib.NewEnv(lib.EnvOpts{
		NActors:  NActors,
		Balances: initialBalances(),
		Consumers: []interface{}{&c.Coinswap, &c.Farm, &c.Htlc, &c.Mt, &c.Nft, &c.Oracle, &c.Random,
			&c.Record, &c.Service, &c.Token},
		Merge: merge,
	})
	return c
}

// extraDenoms: further denominations every actor is funded with at genesis (module files append in init()).
var extraDenoms []string

func initialBalances() sdk.Coins {
	big := sdkmath.NewInt(1_000_000_000_000_000).Mul(sdkmath.NewInt(1_000_000))
	coins := sdk.NewCoins(sdk.NewCoin("stake", big), sdk.NewCoin("uatom", big), sdk.NewCoin("ubtc", big), sdk.NewCoin("ueth", big))
	for _, d := range extraDenoms {
		coins = coins.Add(sdk.NewCoin(d, big))
	}
	return coins
}

// X is the context of one executed history.
type X struct {
	A     *Chain
	Stats map[string]int
	Steps []string
	Notes []string
	// per-module scratch
	Scratch map[string]interface{}
}

// Module is implemented once per irismod module (record.go, htlc.go, ...).
type Module interface {
	Name() string
	// Deps are the modules whose exported genesis is imported into B before this one.
	Deps() []string
	// Gen draws the module's recipe.
	Gen(r *lib.Rand, tier string) []Step
	// Apply executes one of the module's steps on chain A and returns the outcome kind.
	Apply(x *X, st Step) string
	// Prep runs the module's own prepare-for-zero-height function on the chain; false if it has none.
	Prep(x *X, c *Chain) bool
	// State prints the module's state on the chain as a Gallina term (type <M>.state).
	State(x *X, c *Chain) string
	// Genesis prints the projection of an exported genesis as a Gallina term (type <M>.genesis).
	Genesis(x *X, c *Chain, raw json.RawMessage) string
	// Cross prints what chain B answers to queries about the objects of chain A that are not part of
	// State (e.g. queries by the ids of A); "" if the module needs none.
	Cross(x *X, a, b *Chain) string
	// Case assembles the final term from the runs (type <M>.case).
	Case(x *X, runs []string) string
	// NonTrivial: the exported state has >= 1 open time-bound object and >= 1 emptied balance or tally
	// (in the module's own terms, see the module file).
	NonTrivial(x *X) bool
}

// Tamperer is implemented by a module that can damage an exported genesis in ways its ValidateGenesis may
// or may not notice (k selects the damage); what names the damage.
type Tamperer interface {
	Tamper(x *X, c *Chain, raw json.RawMessage, k int) (tampered json.RawMessage, what string, ok bool)
}

// EnvModule is implemented by a module whose export / import reads another module's state: Env prints,
// for the objects of chain a, what chain c's other module says about them.
type EnvModule interface {
	Env(x *X, a, c *Chain) string
}

var modules = map[string]Module{}
var moduleOrder = []string{"record", "htlc", "mt", "farm", "oracle", "random", "token", "coinswap", "nft", "service"}

func register(m Module) { modules[m.Name()] = m }

// ---------------------------------------------------------------------------- generic genesis plumbing

type hasExport interface {
	ExportGenesis(ctx sdk.Context, cdc codec.JSONCodec) json.RawMessage
}
type hasInitABCI interface {
	InitGenesis(ctx sdk.Context, cdc codec.JSONCodec, data json.RawMessage) []abci.ValidatorUpdate
}
type hasInit interface {
	InitGenesis(ctx sdk.Context, cdc codec.JSONCodec, data json.RawMessage)
}

func exportModule(c *Chain, name string) (raw json.RawMessage, err error) {
	defer func() {
		if r := recover(); r != nil {
			err = fmt.Errorf("export panic: %v", r)
		}
	}()
	m := c.App.ModuleManager.Modules[name].(hasExport)
	return m.ExportGenesis(c.Ctx, c.App.AppCodec()), nil
}

func validateModule(c *Chain, name string, raw json.RawMessage) (err error) {
	defer func() {
		if r := recover(); r != nil {
			err = fmt.Errorf("validate panic: %v", r)
		}
	}()
	return c.App.ModuleManager.Modules[name].(module.HasGenesisBasics).ValidateGenesis(c.App.AppCodec(), c.App.TxConfig(), raw)
}

// wipeStore deletes every key of the module's store (chain B is "fresh" for that module).
func wipeStore(c *Chain, storeKey string) {
	key := c.App.GetKey(storeKey)
	if key == nil {
		panic("no store key " + storeKey)
	}
	st := c.Ctx.KVStore(key)
	it := storetypes.KVStorePrefixIterator(st, nil)
	var keys [][]byte
	for ; it.Valid(); it.Next() {
		keys = append(keys, append([]byte{}, it.Key()...))
	}
	it.Close()
	for _, k := range keys {
		st.Delete(k)
	}
}

// initModule runs the module's InitGenesis on the chain under recover(): "ok" or "abort".
func initModule(c *Chain, name string, raw json.RawMessage) (kind string, msg string) {
	defer func() {
		if r := recover(); r != nil {
			kind, msg = "abort", fmt.Sprint(r)
		}
	}()
	m := c.App.ModuleManager.Modules[name]
	switch mm := m.(type) {
	case hasInitABCI:
		mm.InitGenesis(c.Ctx, c.App.AppCodec(), raw)
	case hasInit:
		mm.InitGenesis(c.Ctx, c.App.AppCodec(), raw)
	default:
		panic("module " + name + " has no InitGenesis")
	}
	return "ok", ""
}

// freshB builds chain B: a new app whose bank and auth state are replaced by A's exported ones (module
// accounts, escrow balances and supplies are then those the exported module states refer to).
func freshB(a *Chain, height int64) *Chain {
	b := newChain()
	b.SetHeader(tmproto.Header{Height: height, Time: a.Time, ChainID: "verif"})
	for _, name := range []string{"auth", "bank"} {
		raw, err := exportModule(a, name)
		if err != nil {
			panic(err)
		}
		storeKey := name
		if name == "auth" {
			storeKey = "acc"
		}
		wipeStore(b, storeKey)
		if k, msg := initModule(b, name, raw); k != "ok" {
			panic("import of " + name + " into B failed: " + msg)
		}
	}
	return b
}

// runPath executes one export path for one module and prints the `run` term.
func runPath(x *X, m Module, a *Chain, initHeight, queryHeight int64, tag string) string {
	name := m.Name()
	sA := m.State(x, a)
	raw, err := exportModule(a, name)
	if err != nil {
		x.Notes = append(x.Notes, fmt.Sprintf("%s/%s: %v", name, tag, err))
		raw = json.RawMessage("{}")
	}
	gA := m.Genesis(x, a, raw)
	verr := validateModule(a, name, raw)
	b := freshB(a, initHeight)
	for _, d := range m.Deps() {
		draw, err := exportModule(a, d)
		if err == nil {
			wipeStore(b, d)
			initModule(b, d, draw) // outcome belongs to d's own check
		}
	}
	wipeStore(b, name)
	kind, msg := initModule(b, name, raw)
	lib.Stat(x.Stats, fmt.Sprintf("%s/%s/validate:%v", name, tag, verr == nil))
	lib.Stat(x.Stats, fmt.Sprintf("%s/%s/import:%s", name, tag, kind))
	imp := 0
	sB, gB, cross := "None", "None", ""
	if kind != "ok" {
		imp = 2
		x.Steps = append(x.Steps, fmt.Sprintf("%s/%s: validate=%v import PANIC %s", name, tag, verr, trunc(msg, 160)))
	} else {
		// no block is executed on B before it is read (begin-blockers would already change the state);
		// height-dependent queries are asked at the same notional height on both chains
		b.SetHeader(tmproto.Header{Height: queryHeight, Time: a.Time, ChainID: "verif"})
		sB = "(Some " + m.State(x, b) + ")"
		raw2, err := exportModule(b, name)
		if err != nil {
			x.Notes = append(x.Notes, fmt.Sprintf("%s/%s: second %v", name, tag, err))
		} else {
			gB = "(Some " + m.Genesis(x, b, raw2) + ")"
		}
		x.Steps = append(x.Steps, fmt.Sprintf("%s/%s: validate=%v import ok, second export %s first", name, tag, verr, eqWord(canon(raw), canon(raw2))))
	}
	x.Scratch["importOK"] = kind == "ok" // Cross may ask B only when the import succeeded
	cross = m.Cross(x, a, b)
	// a TAMPERED copy of the exported genesis (as-is path only): ValidateGenesis, then InitGenesis on another
	// fresh chain — the model must give the same two verdicts, and a validated genesis must not panic
	tamper := ""
	if tm, ok := m.(Tamperer); ok {
		tamper = "None"
		if tag == "asis" && err == nil {
			if traw, what, ok := tm.Tamper(x, a, raw, len(x.Steps)+x.Stats["res:ok"]); ok {
				tg := m.Genesis(x, a, traw)
				tverr := validateModule(a, name, traw)
				b2 := freshB(a, initHeight)
				for _, d := range m.Deps() {
					if draw, err := exportModule(a, d); err == nil {
						wipeStore(b2, d)
						initModule(b2, d, draw)
					}
				}
				wipeStore(b2, name)
				tkind, tmsg := initModule(b2, name, traw)
				timp := 0
				if tkind != "ok" {
					timp = 2
				}
				lib.Stat(x.Stats, fmt.Sprintf("%s/tamper/%s/validate:%v/import:%s", name, what, tverr == nil, tkind))
				x.Steps = append(x.Steps, fmt.Sprintf("%s/tamper %s: validate=%v import %s %s", name, what, tverr, tkind, trunc(tmsg, 120)))
				tamper = "(Some " + lib.Pair(tg, lib.B(tverr == nil), lib.Z(int64(timp))) + ")"
			}
		}
	}
	args := []string{sA, gA, lib.B(verr == nil), lib.Z(int64(imp)), sB, gB}
	if em, ok := m.(EnvModule); ok {
		// the state of the modules this one reads from, on A and on B (unchanged by this module's import)
		args = append([]string{em.Env(x, a, a), em.Env(x, a, b)}, args...)
	}
	if cross != "" {
		args = append(args, cross)
	}
	if tamper != "" {
		args = append(args, tamper)
	}
	return lib.App("mkRun", args...)
}

func eqWord(a, b string) string {
	if a == b {
		return "=="
	}
	return "!="
}

func trunc(s string, n int) string {
	if len(s) > n {
		return s[:n]
	}
	return s
}

// canon = canonical JSON (keys sorted) of an exported genesis, for the readable rendering only.
func canon(raw json.RawMessage) string {
	var v interface{}
	if err := json.Unmarshal(raw, &v); err != nil {
		return string(raw)
	}
	out, _ := json.Marshal(v)
	return string(out)
}

// ---------------------------------------------------------------------------- gen / exec

func gen(r *lib.Rand, tier, stream string, i int) History {
	var h History
	if stream == "all" {
		h.Mods = append(h.Mods, moduleOrder...)
	} else {
		h.Mods = []string{stream}
	}
	// recipes of the modules under check and of their dependencies, interleaved block-wise
	need := map[string]bool{}
	var order []string
	var add func(n string)
	add = func(n string) {
		if need[n] || modules[n] == nil {
			return
		}
		need[n] = true
		// the recipes of the dependencies are NOT generated: a module's own recipe sets up what it
		// needs from them (e.g. farm adds coinswap liquidity); their state is still imported into B first
		order = append(order, n)
	}
	for _, n := range h.Mods {
		add(n)
	}
	var recipes [][]Step
	for _, n := range order {
		recipes = append(recipes, modules[n].Gen(r.Sub(hash(n)), tier))
	}
	// interleave: repeatedly take a short run of steps from a random non-empty recipe
	for {
		var live []int
		for k, rc := range recipes {
			if len(rc) > 0 {
				live = append(live, k)
			}
		}
		if len(live) == 0 {
			break
		}
		k := live[r.Intn(len(live))]
		n := 1 + r.Intn(3)
		if n > len(recipes[k]) {
			n = len(recipes[k])
		}
		h.Steps = append(h.Steps, recipes[k][:n]...)
		recipes[k] = recipes[k][n:]
	}
	return h
}

func hash(s string) uint64 {
	var h uint64 = 1469598103934665603
	for i := 0; i < len(s); i++ {
		h ^= uint64(s[i])
		h *= 1099511628211
	}
	return h
}

func exec(h History) lib.Case {
	x := &X{Stats: map[string]int{}, Scratch: map[string]interface{}{}}
	x.A = newChain()
	c := lib.Case{}
	for _, st := range h.Steps {
		if st.Op == "block" {
			n := int64(1)
			if len(st.A) > 0 && st.A[0] > 1 {
				n = st.A[0]
			}
			for k := int64(0); k < n; k++ {
				x.A.EndBlock()
				x.A.BeginBlock(5 * time.Second)
			}
			lib.Stat(x.Stats, "op:block")
			x.Steps = append(x.Steps, fmt.Sprintf("block +%d -> height %d", n, x.A.Height))
			continue
		}
		m := modules[st.M]
		if m == nil {
			continue
		}
		kind := m.Apply(x, st)
		lib.Stat(x.Stats, "op:"+st.M+"."+st.Op)
		lib.Stat(x.Stats, "res:"+kind)
		x.Steps = append(x.Steps, fmt.Sprintf("%s.%s %v %v -> %s", st.M, st.Op, st.A, st.S, kind))
	}
	// close the current block so that end-blockers have run on what is exported
	x.A.EndBlock()
	var terms []string
	nontrivial := true
	mods := append([]string{}, h.Mods...)
	sort.SliceStable(mods, func(i, j int) bool { return idx(mods[i]) < idx(mods[j]) })
	runs := map[string][]string{}
	// path 0: as-is (the new chain is initialised at, and continues with, height+1)
	for _, name := range mods {
		if m := modules[name]; m != nil {
			runs[name] = append(runs[name], runPath(x, m, x.A, x.A.Height+1, x.A.Height, "asis"))
			nontrivial = nontrivial && m.NonTrivial(x)
		}
	}
	// path 1: after the modules' own prepare-for-zero-height functions (they mutate A, so all as-is
	// runs come first; the functions of the dependencies run too, dependencies first); the new chain is
	// initialised in an InitChain context of height 0 and starts with block 1
	prepared := map[string]bool{}
	var prepOrder []string
	var addp func(n string)
	addp = func(n string) {
		if modules[n] == nil {
			return
		}
		for _, d := range modules[n].Deps() {
			addp(d)
		}
		for _, p := range prepOrder {
			if p == n {
				return
			}
		}
		prepOrder = append(prepOrder, n)
	}
	for _, name := range mods {
		addp(name)
	}
	for _, name := range prepOrder {
		func() {
			defer func() {
				if r := recover(); r != nil {
					x.Notes = append(x.Notes, fmt.Sprintf("%s: PrepForZeroHeightGenesis panics: %v", name, r))
				}
			}()
			if modules[name].Prep(x, x.A) {
				prepared[name] = true
			}
		}()
	}
	for _, name := range mods {
		m := modules[name]
		if m == nil {
			continue
		}
		need := prepared[name]
		for _, d := range m.Deps() {
			need = need || prepared[d]
		}
		if need {
			runs[name] = append(runs[name], runPath(x, m, x.A, 0, 1, "prep"))
		}
		terms = append(terms, m.Case(x, runs[name]))
	}
	c.Coq = terms[0]
	if len(h.Mods) > 1 {
		c.Coq = lib.L(terms...)
	}
	c.NonTrivial = nontrivial
	c.Stats = x.Stats
	c.Steps = x.Steps
	c.Notes = x.Notes
	return c
}

func idx(name string) int {
	for i, n := range moduleOrder {
		if n == name {
			return i
		}
	}
	return 99
}

func main() {
	lib.Main(lib.Driver[History]{Gen: gen, Exec: exec})
}
