package main

// farm: pools over coinswap liquidity tokens (created by the recipe's own setup step), stakes of
// small, zero and huge amounts by several farmers, unstakes, harvests, adjustment, destruction, expiry by
// block advancement.
// State = params, sequence, pools (raw 0x06 keys, without the embedded rule copy), rules (raw 0x02),
// farm infos (raw 0x03), the queue of active pools (raw 0x04).

import (
	"bytes"
	"encoding/binary"
	"encoding/json"
	"fmt"
	"sort"
	"strings"

	sdkmath "cosmossdk.io/math"
	storetypes "cosmossdk.io/store/types"
	sdk "github.com/cosmos/cosmos-sdk/types"

	cstypes "mods.irisnet.org/modules/coinswap/types"
	farmtypes "mods.irisnet.org/modules/farm/types"

	"verifharness/lib"
)

type farmMod struct{}

func init() { register(farmMod{}) }

type farmScratch struct {
	descs     *lib.Interner
	nActive   int
	nFarmers  int
	zeroTally bool
}

func (farmMod) scratch(x *X) *farmScratch {
	if s, ok := x.Scratch["farm"]; ok {
		return s.(*farmScratch)
	}
	s := &farmScratch{descs: lib.NewInterner()}
	x.Scratch["farm"] = s
	return s
}

func (farmMod) Name() string   { return "farm" }
func (farmMod) Deps() []string { return []string{"coinswap"} }

// denominations in byte order: the harness universe plus the liquidity tokens lpt-1 .. lpt-9
func farmDenomRank(d string) int64 {
	if sdk.ValidateDenom(d) != nil {
		return -1
	}
	all := append([]string{}, denomUniverse...)
	for i := 1; i <= 9; i++ {
		all = append(all, fmt.Sprintf("lpt-%d", i))
	}
	sort.Strings(all)
	for i, s := range all {
		if s == d {
			return int64(i)
		}
	}
	return 99
}

// farmers' addresses in the byte order of their bech32 strings
func farmAddrRank(c *Chain, bech string) int64 {
	if _, err := sdk.AccAddressFromBech32(bech); err != nil {
		return -1
	}
	var all []string
	for _, a := range c.Actors {
		all = append(all, a.String())
	}
	sort.Strings(all)
	for i, s := range all {
		if s == bech {
			return int64(i)
		}
	}
	return 99
}

// setup:   (no arguments) liquidity for uatom and ubtc from actors 0..2, actor 0 with a huge amount
// create:  A = [creator, lpt index, start offset, reward per block, blocks, editable, second rule?]
// stake:   A = [sender, pool index, kind (0 small, 1 zero, 2 huge), amount]
// unstake: A = [sender, pool index, amount (0: everything)]
// harvest: A = [sender, pool index]
// destroy: A = [pool index]
// adjust:  A = [pool index, additional reward, reward per block]
func (farmMod) Gen(r *lib.Rand, tier string) []Step {
	n := 6 + r.Intn(12)
	if tier == "thorough" {
		n = 6 + r.Intn(40)
	}
	out := []Step{{M: "farm", Op: "setup"}}
	for i := 0; i < n; i++ {
		w := r.Weighted(3, 7, 3, 2, 1, 1, 4, 1)
		if i == 0 {
			w = 0
		}
		switch w {
		case 0:
			out = append(out, Step{M: "farm", Op: "create", A: []int64{int64(r.Intn(3)), int64(r.Intn(2)), int64(r.Weighted(8, 1, 1)), int64(1 + r.Intn(5)), int64(2 + r.Intn(12)), int64(r.Weighted(3, 1)), int64(r.Weighted(2, 1))}})
		case 1:
			out = append(out, Step{M: "farm", Op: "stake", A: []int64{int64(r.Intn(3)), int64(r.Intn(4)), int64(r.Weighted(8, 1, 2)), int64(1 + r.Intn(100000))}})
		case 2:
			amt := int64(0)
			if r.Chance(1, 2) {
				amt = int64(1 + r.Intn(1000))
			}
			out = append(out, Step{M: "farm", Op: "unstake", A: []int64{int64(r.Intn(3)), int64(r.Intn(4)), amt}})
		case 3:
			out = append(out, Step{M: "farm", Op: "harvest", A: []int64{int64(r.Intn(3)), int64(r.Intn(4))}})
		case 4:
			out = append(out, Step{M: "farm", Op: "destroy", A: []int64{int64(r.Intn(4))}})
		case 5:
			out = append(out, Step{M: "farm", Op: "adjust", A: []int64{int64(r.Intn(4)), int64(r.Intn(50)), int64(1 + r.Intn(5))}})
		case 6:
			out = append(out, Step{Op: "block", A: []int64{int64(1 + r.Intn(2))}})
		case 7:
			out = append(out, Step{Op: "block", A: []int64{int64(3 + r.Intn(6))}})
		}
	}
	return out
}

func (farmMod) poolIDs(c *Chain) []string {
	var ids []string
	c.Farm.IteratorAllPools(c.Ctx, func(p farmtypes.FarmPool) { ids = append(ids, p.Id) })
	return ids
}

// a pool that is still running at the current height (preferring the indexed one)
func (m farmMod) pickPool(c *Chain, i int64, running bool) (farmtypes.FarmPool, bool) {
	ids := m.poolIDs(c)
	if len(ids) == 0 {
		return farmtypes.FarmPool{}, false
	}
	for k := 0; k < len(ids); k++ {
		p, _ := c.Farm.GetPool(c.Ctx, ids[(int(i)+k)%len(ids)])
		if !running || (p.EndHeight > c.Height && p.StartHeight <= c.Height) {
			return p, true
		}
	}
	p, _ := c.Farm.GetPool(c.Ctx, ids[int(i)%len(ids)])
	return p, true
}

// a pool somebody has staked in (preferring the indexed one)
func (m farmMod) pickStaked(c *Chain, i int64) (farmtypes.FarmPool, bool) {
	ids := m.poolIDs(c)
	for k := 0; k < len(ids); k++ {
		p, _ := c.Farm.GetPool(c.Ctx, ids[(int(i)+k)%len(ids)])
		if p.TotalLptLocked.Amount.IsPositive() {
			return p, true
		}
	}
	return m.pickPool(c, i, false)
}

func (m farmMod) Apply(x *X, st Step) string {
	a := x.A
	addr := func(i int64) sdk.AccAddress { return a.Actors[int(i)%3] }
	switch st.Op {
	case "setup":
		huge, _ := sdkmath.NewIntFromString("300000000000000000000")
		kind := "ok"
		for i, denom := range []string{"uatom", "ubtc"} {
			for actor := int64(0); actor < 3; actor++ {
				amt := sdkmath.NewInt(1000000)
				if actor == 0 && i == 0 {
					amt = huge
				}
				max := amt.MulRaw(3)
				if actor > 0 {
					max = amt.MulRaw(20) // the first deposit fixed the ratio near 3; only what is needed is taken
				}
				o := a.Deliver(&cstypes.MsgAddLiquidity{MaxToken: sdk.NewCoin(denom, max), ExactStandardAmt: amt, MinLiquidity: sdkmath.NewInt(1),
					Deadline: a.Time.Unix() + 1000, Sender: addr(actor).String()})
				if !o.OK() {
					kind = o.Kind
					x.Notes = append(x.Notes, "farm setup: add liquidity failed: "+o.Err)
				}
			}
		}
		return kind
	case "create":
		if len(m.poolIDs(a)) >= 9 {
			return "rej" // pool ids farm-N with N < 10 are the modelled universe (byte order = numeric order)
		}
		var lpts []string
		for _, p := range a.Coinswap.GetAllPools(a.Ctx) {
			lpts = append(lpts, p.LptDenom)
		}
		if len(lpts) == 0 {
			return "rej"
		}
		lpt := lpts[int(st.A[1])%len(lpts)]
		perBlock := sdk.NewCoins(sdk.NewCoin("stake", sdkmath.NewInt(st.A[3])))
		total := sdk.NewCoins(sdk.NewCoin("stake", sdkmath.NewInt(st.A[3]*st.A[4])))
		if st.A[6] == 1 {
			perBlock = perBlock.Add(sdk.NewCoin("ueth", sdkmath.NewInt(2)))
			total = total.Add(sdk.NewCoin("ueth", sdkmath.NewInt(2*st.A[4])))
		}
		return a.Deliver(&farmtypes.MsgCreatePool{Description: []string{"", "a farm pool", "x"}[int(st.A[0])%3], LptDenom: lpt, StartHeight: a.Height + st.A[2],
			RewardPerBlock: perBlock, TotalReward: total, Editable: st.A[5] == 0, Creator: addr(st.A[0]).String()}).Kind
	case "stake":
		p, ok := m.pickPool(a, st.A[1], true)
		if !ok {
			return "rej"
		}
		sender := addr(st.A[0])
		amt := sdkmath.NewInt(st.A[3])
		switch st.A[2] {
		case 1:
			amt = sdkmath.ZeroInt()
		case 2:
			// a stake so large that one block's reward per share truncates to zero at 18 digits
			sender = addr(0)
			amt, _ = sdkmath.NewIntFromString("20000000000000000000")
		}
		return a.Deliver(&farmtypes.MsgStake{PoolId: p.Id, Amount: sdk.NewCoin(p.TotalLptLocked.Denom, amt), Sender: sender.String()}).Kind
	case "unstake":
		p, ok := m.pickStaked(a, st.A[1])
		if !ok {
			return "rej"
		}
		sender := addr(st.A[0])
		var info farmtypes.FarmInfo
		found := false
		for k := int64(0); k < 3 && !found; k++ {
			sender = addr(st.A[0] + k)
			info, found = a.Farm.GetFarmInfo(a.Ctx, p.Id, sender.String())
		}
		amt := sdkmath.NewInt(st.A[2])
		if st.A[2] == 0 && found {
			amt = info.Locked
		}
		return a.Deliver(&farmtypes.MsgUnstake{PoolId: p.Id, Amount: sdk.NewCoin(p.TotalLptLocked.Denom, amt), Sender: sender.String()}).Kind
	case "harvest":
		p, ok := m.pickStaked(a, st.A[1])
		if !ok {
			return "rej"
		}
		sender := addr(st.A[0])
		for k := int64(0); k < 3; k++ {
			if _, found := a.Farm.GetFarmInfo(a.Ctx, p.Id, addr(st.A[0]+k).String()); found {
				sender = addr(st.A[0] + k)
				break
			}
		}
		return a.Deliver(&farmtypes.MsgHarvest{PoolId: p.Id, Sender: sender.String()}).Kind
	case "destroy":
		p, ok := m.pickPool(a, st.A[0], true)
		if !ok {
			return "rej"
		}
		return a.Deliver(&farmtypes.MsgDestroyPool{PoolId: p.Id, Creator: p.Creator}).Kind
	case "adjust":
		p, ok := m.pickPool(a, st.A[0], true)
		if !ok {
			return "rej"
		}
		var add sdk.Coins
		if st.A[1] > 0 {
			add = sdk.NewCoins(sdk.NewCoin("stake", sdkmath.NewInt(st.A[1])))
		}
		return a.Deliver(&farmtypes.MsgAdjustPool{PoolId: p.Id, AdditionalReward: add, RewardPerBlock: sdk.NewCoins(sdk.NewCoin("stake", sdkmath.NewInt(st.A[2]))), Creator: p.Creator}).Kind
	}
	return "rej"
}

func (farmMod) Prep(x *X, c *Chain) bool { return false }

func farmPoolID(id string) int64 {
	if n, err := farmtypes.ValidatepPoolId(id); err == nil && n < 10 {
		return int64(n)
	}
	return -1
}

func farmCoin(c sdk.Coin) string {
	amt := "(-1)"
	if !c.Amount.IsNil() {
		amt = lib.ZI(c.Amount)
	}
	return lib.Pair(lib.Z(farmDenomRank(c.Denom)), amt)
}

func (m farmMod) poolTerm(x *X, c *Chain, p farmtypes.FarmPool) string {
	s := m.scratch(x)
	if farmPoolID(p.Id) < 0 {
		x.Notes = append(x.Notes, "farm: pool id outside the universe: "+p.Id)
	}
	return lib.App("mkPool", lib.Z(farmPoolID(p.Id)), lib.Z(actorIdx(c, p.Creator)), lib.Z(int64(s.descs.Id(p.Description))), lib.Z(int64(len(p.Description))),
		lib.Z(p.StartHeight), lib.Z(p.EndHeight), lib.Z(p.LastHeightDistrRewards), lib.B(p.Editable), farmCoin(p.TotalLptLocked))
}

func farmRuleTerm(r farmtypes.RewardRule) string {
	return lib.App("mkRule", lib.Z(farmDenomRank(r.Reward)), lib.ZI(r.TotalReward), lib.ZI(r.RemainingReward), lib.ZI(r.RewardPerBlock), lib.ZB(r.RewardPerShare.BigInt()))
}

func (m farmMod) farmerTerm(c *Chain, f farmtypes.FarmInfo) string {
	var debt []string
	for _, d := range f.RewardDebt {
		debt = append(debt, farmCoin(d))
	}
	return lib.App("mkFarmer", lib.Z(farmPoolID(f.PoolId)), lib.Z(farmAddrRank(c, f.Address)), lib.ZI(f.Locked), lib.L(debt...))
}

func farmParamsTerm(p farmtypes.Params) string {
	return lib.App("mkParams", farmCoin(p.PoolCreationFee), lib.ZU(uint64(p.MaxRewardCategories)), lib.ZB(p.TaxRate.BigInt()))
}

func (m farmMod) State(x *X, c *Chain) string {
	s := m.scratch(x)
	store := c.Ctx.KVStore(c.App.GetKey(farmtypes.StoreKey))
	cdc := c.App.AppCodec()
	var ps, fs, q []string
	// rules (raw 0x02 keys) grouped by pool id
	rulesOf := map[string][]string{}
	it := storetypes.KVStorePrefixIterator(store, farmtypes.FarmPoolRuleKey)
	for ; it.Valid(); it.Next() {
		var r farmtypes.RewardRule
		cdc.MustUnmarshal(it.Value(), &r)
		parts := bytes.SplitN(it.Key()[1:], farmtypes.Delimiter, 2)
		rulesOf[string(parts[0])] = append(rulesOf[string(parts[0])], lib.Pair(lib.Z(farmDenomRank(string(parts[1]))), farmRuleTerm(r)))
	}
	it.Close()
	it = storetypes.KVStorePrefixIterator(store, farmtypes.FarmPoolKey)
	for ; it.Valid(); it.Next() {
		var p farmtypes.FarmPool
		cdc.MustUnmarshal(it.Value(), &p)
		id := string(it.Key()[1:])
		ps = append(ps, lib.Pair(lib.Z(farmPoolID(id)), lib.Pair(m.poolTerm(x, c, p), lib.L(rulesOf[id]...))))
		delete(rulesOf, id)
	}
	it.Close()
	for id := range rulesOf {
		x.Notes = append(x.Notes, "farm: reward rules stored for a pool that does not exist: "+id)
	}
	it = storetypes.KVStorePrefixIterator(store, farmtypes.FarmerKey)
	nf := 0
	zero := false
	for ; it.Valid(); it.Next() {
		var f farmtypes.FarmInfo
		cdc.MustUnmarshal(it.Value(), &f)
		key := string(it.Key()[1:])
		i := strings.LastIndex(key, "farm-")
		fs = append(fs, lib.Pair(lib.Pair(lib.Z(farmAddrRank(c, key[:i])), lib.Z(farmPoolID(key[i:]))), m.farmerTerm(c, f)))
		nf++
		if f.Locked.IsZero() {
			zero = true
		}
	}
	it.Close()
	it = storetypes.KVStorePrefixIterator(store, farmtypes.ActiveFarmPoolKey)
	na := 0
	for ; it.Valid(); it.Next() {
		k := it.Key()
		q = append(q, lib.Pair(lib.Pair(lib.ZU(binary.BigEndian.Uint64(k[1:9])), lib.Z(farmPoolID(string(k[9:])))), "tt"))
		na++
	}
	it.Close()
	if c == x.A {
		s.nActive, s.nFarmers = na, nf
		for _, id := range m.poolIDs(c) {
			if p, _ := c.Farm.GetPool(c.Ctx, id); p.TotalLptLocked.Amount.IsZero() && p.LastHeightDistrRewards > 0 {
				zero = true
			}
		}
		s.zeroTally = zero
	}
	if len(c.Farm.GetAllEscrowInfo(c.Ctx)) > 0 {
		x.Notes = append(x.Notes, "farm: escrow infos present (not modelled)")
	}
	return lib.App("mkState", farmParamsTerm(c.Farm.GetParams(c.Ctx)), lib.ZU(c.Farm.GetSequence(c.Ctx)), lib.L(ps...), lib.L(fs...), lib.L(q...))
}

func (m farmMod) Genesis(x *X, c *Chain, raw json.RawMessage) string {
	var gs farmtypes.GenesisState
	c.App.AppCodec().MustUnmarshalJSON(raw, &gs)
	var ps, fs []string
	for _, p := range gs.Pools {
		var rs []string
		for _, r := range p.Rules {
			rs = append(rs, farmRuleTerm(r))
		}
		ps = append(ps, lib.Pair(m.poolTerm(x, c, p), lib.L(rs...)))
	}
	for _, f := range gs.FarmInfos {
		fs = append(fs, m.farmerTerm(c, f))
	}
	if len(gs.Escrow) > 0 {
		x.Notes = append(x.Notes, "farm: escrow infos exported (not modelled)")
	}
	return lib.App("mkGenesis", farmParamsTerm(gs.Params), lib.L(ps...), lib.L(fs...), lib.ZU(gs.Sequence))
}

func (farmMod) Cross(x *X, a, b *Chain) string { return "" }

func (m farmMod) Case(x *X, runs []string) string { return lib.App("mkCase", lib.Z(x.A.Height), lib.L(runs...)) }

// non-trivial: at least one pool is still running (time-bound), at least one farmer is registered and some
// tally is zero (a farmer with nothing locked, or a pool whose stakes were all withdrawn)
func (m farmMod) NonTrivial(x *X) bool {
	s := m.scratch(x)
	return s.nActive >= 1 && s.nFarmers >= 1 && s.zeroTally
}

// Tamper: damage the exported genesis (see main.go: Tamperer)
func (m farmMod) Tamper(x *X, c *Chain, raw json.RawMessage, k int) (json.RawMessage, string, bool) {
	var gs farmtypes.GenesisState
	c.App.AppCodec().MustUnmarshalJSON(raw, &gs)
	what := ""
	switch k % 5 {
	case 0:
		what = "farmer-of-unknown-pool"
		gs.FarmInfos = append(gs.FarmInfos, farmtypes.FarmInfo{PoolId: "farm-9", Address: c.Actors[0].String(), Locked: sdkmath.NewInt(5), RewardDebt: sdk.NewCoins()})
	case 1:
		if len(gs.FarmInfos) == 0 {
			return nil, "", false
		}
		what = "locked-zero"
		gs.FarmInfos[0].Locked = sdkmath.ZeroInt()
	case 2:
		if len(gs.Pools) == 0 {
			return nil, "", false
		}
		what = "sequence-zero"
		gs.Sequence = 0
	case 3:
		what = "tax-rate-two"
		gs.Params.TaxRate = sdkmath.LegacyNewDec(2)
	case 4:
		what = "untouched"
	}
	return c.App.AppCodec().MustMarshalJSON(&gs), what, true
}
