package main

// random: plain (non-oracle) random-number requests with various block intervals from several
// consumers, several per block; block advancement generates numbers and drains the queue.
// State = the request queue (raw 0x02 keys: height, request id), viewed as height -> (id -> request).
// Request ids are SHA-256(be64(request height) ++ consumer): the harness recomputes them from the
// pre-image the model uses and supplies their byte-order ranks as a table.

import (
	"bytes"
	"crypto/sha256"
	"encoding/binary"
	"encoding/hex"
	"encoding/json"
	"fmt"
	"sort"
	"strconv"

	storetypes "cosmossdk.io/store/types"
	sdk "github.com/cosmos/cosmos-sdk/types"

	"mods.irisnet.org/modules/random"
	randomtypes "mods.irisnet.org/modules/random/types"

	"verifharness/lib"
)

type randomMod struct{}

func init() { register(randomMod{}) }

type randomScratch struct {
	txs      *lib.Interner
	caps     *lib.Interner
	pre      map[string][2]int64 // hex id -> (request height, consumer)
	nPending int
	nDone    int
}

func (randomMod) scratch(x *X) *randomScratch {
	if s, ok := x.Scratch["random"]; ok {
		return s.(*randomScratch)
	}
	s := &randomScratch{txs: lib.NewInterner(), caps: lib.NewInterner(), pre: map[string][2]int64{}}
	x.Scratch["random"] = s
	return s
}

func (randomMod) Name() string   { return "random" }
func (randomMod) Deps() []string { return nil }

// request: A = [consumer, block interval]
func (randomMod) Gen(r *lib.Rand, tier string) []Step {
	n := 4 + r.Intn(10)
	if tier == "thorough" {
		n = 4 + r.Intn(30)
	}
	var out []Step
	out = append(out, Step{Op: "block"})
	for i := 0; i < n; i++ {
		switch r.Weighted(6, 3, 1) {
		case 0:
			iv := int64(1 + r.Intn(6))
			if r.Chance(1, 4) {
				iv = int64(10 + r.Intn(40))
			}
			if r.Chance(1, 15) {
				iv = 0 // rejected
			}
			out = append(out, Step{M: "random", Op: "request", A: []int64{int64(r.Intn(3)), iv}})
		case 1:
			out = append(out, Step{Op: "block", A: []int64{int64(1 + r.Intn(3))}})
		case 2:
			out = append(out, Step{Op: "block", A: []int64{int64(4 + r.Intn(8))}})
		}
	}
	return out
}

func (m randomMod) Apply(x *X, st Step) string {
	a := x.A
	switch st.Op {
	case "request":
		return a.Deliver(&randomtypes.MsgRequestRandom{BlockInterval: uint64(st.A[1]), Consumer: a.Actors[int(st.A[0])%3].String()}).Kind
	}
	return "rej"
}

func (randomMod) Prep(x *X, c *Chain) bool {
	random.PrepForZeroHeightGenesis(c.Ctx, c.Random)
	return true
}

func randomID(height int64, consumer string) []byte {
	b := make([]byte, 8)
	binary.BigEndian.PutUint64(b, uint64(height))
	h := sha256.Sum256(append(b, []byte(consumer)...))
	return h[:]
}

func (m randomMod) reqTerm(x *X, c *Chain, r randomtypes.Request) string {
	s := m.scratch(x)
	cons := actorIdx(c, r.Consumer)
	s.pre[hex.EncodeToString(randomID(r.Height, r.Consumer))] = [2]int64{r.Height, cons}
	capID := int64(0)
	if len(r.ServiceFeeCap) > 0 {
		capID = int64(s.caps.Id(r.ServiceFeeCap.String())) + 1
	}
	ctxID := int64(0)
	if r.ServiceContextID != "" {
		ctxID = int64(s.caps.Id("ctx:"+r.ServiceContextID)) + 1
	}
	return lib.App("mkReq", lib.Z(r.Height), lib.Z(cons), lib.Z(int64(s.txs.Id(r.TxHash))), lib.B(r.Oracle), lib.Z(capID), lib.Z(ctxID))
}

// id rank: filled in by Case (placeholder @ID<hex>@ until all ids are known)
func idPlaceholder(id []byte) string { return "@ID" + hex.EncodeToString(id) + "@" }

func (m randomMod) State(x *X, c *Chain) string {
	s := m.scratch(x)
	store := c.Ctx.KVStore(c.App.GetKey(randomtypes.StoreKey))
	cdc := c.App.AppCodec()
	type group struct {
		h     uint64
		items []string
	}
	var groups []group
	it := storetypes.KVStorePrefixIterator(store, randomtypes.RandomRequestQueueKey)
	n := 0
	for ; it.Valid(); it.Next() {
		k := it.Key()
		h := binary.BigEndian.Uint64(k[1:9])
		id := append([]byte{}, k[9:]...)
		var r randomtypes.Request
		cdc.MustUnmarshal(it.Value(), &r)
		if !bytes.Equal(id, randomID(r.Height, r.Consumer)) {
			x.Notes = append(x.Notes, fmt.Sprintf("random: queue id %X is not sha256(be64(height) || consumer) of the request stored under it", id))
		}
		item := lib.Pair(idPlaceholder(id), m.reqTerm(x, c, r))
		if len(groups) == 0 || groups[len(groups)-1].h != h {
			groups = append(groups, group{h: h})
		}
		groups[len(groups)-1].items = append(groups[len(groups)-1].items, item)
		n++
	}
	it.Close()
	if c == x.A {
		s.nPending = n
		done := 0
		c.Random.IterateRandoms(c.Ctx, func(randomtypes.Random) bool { done++; return false })
		if done > s.nDone {
			s.nDone = done
		}
	}
	var out []string
	for _, g := range groups {
		out = append(out, lib.Pair(lib.ZU(g.h), lib.L(g.items...)))
		// the gRPC queue query by height shows the same number of requests
		if q, err := c.Random.RandomRequestQueue(c.Ctx, &randomtypes.QueryRandomRequestQueueRequest{Height: int64(g.h)}); err != nil || len(q.Requests) != len(g.items) {
			x.Notes = append(x.Notes, fmt.Sprintf("random: RandomRequestQueue(%d) disagrees with the store", g.h))
		}
	}
	return lib.L(out...)
}

func (m randomMod) Genesis(x *X, c *Chain, raw json.RawMessage) string {
	var gs randomtypes.GenesisState
	c.App.AppCodec().MustUnmarshalJSON(raw, &gs)
	type ent struct {
		h    int64
		reqs []string
	}
	var ents []ent
	for k, v := range gs.PendingRandomRequests {
		h := int64(-1)
		if u, err := strconv.ParseUint(k, 10, 64); err == nil {
			h = int64(u)
		}
		var rs []string
		for _, r := range v.Requests {
			rs = append(rs, m.reqTerm(x, c, r))
		}
		ents = append(ents, ent{h, rs})
	}
	sort.Slice(ents, func(i, j int) bool { return ents[i].h < ents[j].h })
	var out []string
	for _, e := range ents {
		out = append(out, lib.Pair(lib.Z(e.h), lib.L(e.reqs...)))
	}
	return lib.L(out...)
}

func (randomMod) Cross(x *X, a, b *Chain) string { return "" }

// the id table: rank by byte order of the SHA-256 of every pre-image seen; placeholders resolved
func (m randomMod) Case(x *X, runs []string) string {
	s := m.scratch(x)
	var ids []string
	for id := range s.pre {
		ids = append(ids, id)
	}
	sort.Strings(ids) // hex order = byte order
	var tbl []string
	body := lib.L(runs...)
	for i, id := range ids {
		p := s.pre[id]
		tbl = append(tbl, lib.Pair(lib.Pair(lib.Z(p[0]), lib.Z(p[1])), lib.Z(int64(i))))
		body = replaceAll(body, "@ID"+id+"@", lib.Z(int64(i)))
	}
	return lib.App("mkCase", lib.Z(x.A.Height), lib.L(tbl...), body)
}

func replaceAll(s, old, new string) string { return string(bytes.ReplaceAll([]byte(s), []byte(old), []byte(new))) }

// non-trivial: at least one request is pending (time-bound) and at least one number was generated
// (its queue slot emptied)
func (m randomMod) NonTrivial(x *X) bool {
	s := m.scratch(x)
	return s.nPending >= 1 && s.nDone >= 1
}

var _ = sdk.AccAddress{}
