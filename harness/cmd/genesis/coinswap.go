package main

// coinswap: pools for several counterparty denominations (created by the first add-liquidity),
// further liquidity, swaps, partial and complete removal of liquidity.
// State = params, standard denom, sequence (raw), pools (raw "pool/<id>" keys), the lpt-denom index
// (raw "lptDenom/<lpt>" keys, ordered by N); the reserves and the liquidity supply are shown through
// the LiquidityPool query on both chains.

import (
	"encoding/json"
	"fmt"
	"sort"
	"strings"

	sdkmath "cosmossdk.io/math"
	storetypes "cosmossdk.io/store/types"
	gogotypes "github.com/cosmos/gogoproto/types"
	sdk "github.com/cosmos/cosmos-sdk/types"

	cstypes "mods.irisnet.org/modules/coinswap/types"

	"verifharness/lib"
)

type coinswapMod struct{}

func init() { register(coinswapMod{}) }

type coinswapScratch struct {
	emptied bool
	nPools  int
}

func (coinswapMod) scratch(x *X) *coinswapScratch {
	if s, ok := x.Scratch["coinswap"]; ok {
		return s.(*coinswapScratch)
	}
	s := &coinswapScratch{}
	x.Scratch["coinswap"] = s
	return s
}

func (coinswapMod) Name() string   { return "coinswap" }
func (coinswapMod) Deps() []string { return nil }

var csDenoms = []string{"uatom", "ubtc", "ueth"}

// add:    A = [sender, denom index, max token, exact standard, min liquidity]
// swap:   A = [sender, recipient, denom index, direction (0: sell standard, 1: sell token, 2: token for token), amount, buy?]
// remove: A = [sender, denom index, amount (0: everything the sender holds)]
func (coinswapMod) Gen(r *lib.Rand, tier string) []Step {
	n := 4 + r.Intn(10)
	if tier == "thorough" {
		n = 4 + r.Intn(30)
	}
	var out []Step
	for i := 0; i < n; i++ {
		switch r.Weighted(5, 4, 3, 1) {
		case 0:
			amt := int64(1000 + r.Intn(1000000))
			if r.Chance(1, 12) {
				amt = 0 // rejected
			}
			out = append(out, Step{M: "coinswap", Op: "add", A: []int64{int64(r.Intn(3)), int64(r.Intn(len(csDenoms))), amt, int64(1000 + r.Intn(1000000)), 1}})
		case 1:
			out = append(out, Step{M: "coinswap", Op: "swap", A: []int64{int64(r.Intn(3)), int64(r.Intn(3)), int64(r.Intn(len(csDenoms))), int64(r.Intn(3)), int64(1 + r.Intn(5000)), int64(r.Intn(2))}})
		case 2:
			amt := int64(0)
			if r.Chance(1, 2) {
				amt = int64(1 + r.Intn(2000))
			}
			out = append(out, Step{M: "coinswap", Op: "remove", A: []int64{int64(r.Intn(3)), int64(r.Intn(len(csDenoms))), amt}})
		case 3:
			out = append(out, Step{Op: "block"})
		}
	}
	return out
}

func (m coinswapMod) Apply(x *X, st Step) string {
	a := x.A
	s := m.scratch(x)
	addr := func(i int64) string { return a.Actors[int(i)%NActors].String() }
	deadline := a.Time.Unix() + 1000
	switch st.Op {
	case "add":
		denom := csDenoms[int(st.A[1])%len(csDenoms)]
		if _, exists := a.Coinswap.GetPool(a.Ctx, cstypes.GetPoolId(denom)); exists && st.A[2] > 0 && st.A[2]%5 != 0 {
			st.A[2] = 1000000000000 // an existing pool fixes the ratio: offer enough
		}
		o := a.Deliver(&cstypes.MsgAddLiquidity{MaxToken: sdk.NewCoin(denom, sdkmath.NewInt(st.A[2])), ExactStandardAmt: sdkmath.NewInt(st.A[3]),
			MinLiquidity: sdkmath.NewInt(st.A[4]), Deadline: deadline, Sender: addr(st.A[0])})
		return o.Kind
	case "swap":
		denom := csDenoms[int(st.A[2])%len(csDenoms)]
		live := m.livePools(a)
		if len(live) > 0 && st.A[4]%7 != 0 {
			denom = live[int(st.A[2])%len(live)]
		}
		in, outd := "stake", denom
		switch st.A[3] {
		case 1:
			in, outd = denom, "stake"
		case 2:
			if len(live) >= 2 {
				in, outd = denom, live[(int(st.A[2])+1)%len(live)]
			}
		}
		buy := st.A[5] == 1
		inAmt, outAmt := st.A[4], int64(1)
		if buy {
			inAmt, outAmt = 1000000000, st.A[4]
		}
		o := a.Deliver(&cstypes.MsgSwapOrder{
			Input:    cstypes.Input{Address: addr(st.A[0]), Coin: sdk.NewCoin(in, sdkmath.NewInt(inAmt))},
			Output:   cstypes.Output{Address: addr(st.A[1]), Coin: sdk.NewCoin(outd, sdkmath.NewInt(outAmt))},
			Deadline: deadline, IsBuyOrder: buy})
		return o.Kind
	case "remove":
		denom := csDenoms[int(st.A[1])%len(csDenoms)]
		if live := m.livePools(a); len(live) > 0 && st.A[2]%7 != 1 {
			denom = live[int(st.A[1])%len(live)]
		}
		pool, ok := a.Coinswap.GetPool(a.Ctx, cstypes.GetPoolId(denom))
		if !ok {
			return "rej"
		}
		sender := a.Actors[int(st.A[0])%NActors]
		// mostly a holder of the liquidity token withdraws
		for k := 0; k < 3 && a.Balance(sender, pool.LptDenom).IsZero() && st.A[2]%7 != 2; k++ {
			sender = a.Actors[(int(st.A[0])+k+1)%3]
		}
		amt := sdkmath.NewInt(st.A[2])
		all := st.A[2] == 0
		if all {
			amt = a.Balance(sender, pool.LptDenom)
		}
		o := a.Deliver(&cstypes.MsgRemoveLiquidity{WithdrawLiquidity: sdk.NewCoin(pool.LptDenom, amt), MinToken: sdkmath.NewInt(0),
			MinStandardAmt: sdkmath.NewInt(0), Deadline: deadline, Sender: sender.String()})
		if o.OK() && a.Supply(pool.LptDenom).IsZero() {
			s.emptied = true
		}
		return o.Kind
	}
	return "rej"
}

func (coinswapMod) Prep(x *X, c *Chain) bool { return false }

// counterparty denominations of the pools that hold liquidity
func (coinswapMod) livePools(c *Chain) []string {
	var out []string
	for _, p := range c.Coinswap.GetAllPools(c.Ctx) {
		if !c.Supply(p.LptDenom).IsZero() {
			out = append(out, p.CounterpartyDenom)
		}
	}
	return out
}

func csDenomRank(d string) int64 {
	if sdk.ValidateDenom(d) != nil {
		return -1
	}
	return denomRank(d)
}

func (m coinswapMod) poolTerm(x *X, p cstypes.Pool) string {
	id := int64(-1)
	if strings.HasPrefix(p.Id, "pool-") {
		id = denomRank(strings.TrimPrefix(p.Id, "pool-"))
	}
	if id < 0 {
		x.Notes = append(x.Notes, "coinswap: pool id outside the universe: "+p.Id)
	}
	lpt := int64(-1)
	if n, err := cstypes.ParseLptDenom(p.LptDenom); err == nil {
		lpt = int64(n)
	}
	esc := int64(-1)
	if addr, err := sdk.AccAddressFromBech32(p.EscrowAddress); err == nil {
		esc = 0
		if addr.Equals(cstypes.GetReservePoolAddr(p.LptDenom)) {
			esc = 1
		}
	}
	return lib.App("mkPool", lib.Z(id), lib.Z(csDenomRank(p.StandardDenom)), lib.Z(csDenomRank(p.CounterpartyDenom)), lib.Z(esc), lib.Z(lpt))
}

func csParamsTerm(p cstypes.Params) string {
	return lib.App("mkParams", lib.ZB(p.Fee.BigInt()), lib.Pair(lib.Z(csDenomRank(p.PoolCreationFee.Denom)), lib.ZI(p.PoolCreationFee.Amount)),
		lib.ZB(p.TaxRate.BigInt()), lib.ZB(p.UnilateralLiquidityFee.BigInt()))
}

func (m coinswapMod) State(x *X, c *Chain) string {
	s := m.scratch(x)
	store := c.Ctx.KVStore(c.App.GetKey(cstypes.StoreKey))
	cdc := c.App.AppCodec()
	pr, err := c.Coinswap.Params(c.Ctx, &cstypes.QueryParamsRequest{})
	if err != nil {
		panic(err)
	}
	seq := uint64(1)
	if bz := store.Get([]byte(cstypes.KeyNextPoolSequence)); bz != nil {
		seq = sdk.BigEndianToUint64(bz)
	}
	var pools []string
	it := storetypes.KVStorePrefixIterator(store, []byte(cstypes.KeyPool+"/"))
	n := 0
	for ; it.Valid(); it.Next() {
		var p cstypes.Pool
		cdc.MustUnmarshal(it.Value(), &p)
		key := strings.TrimPrefix(string(it.Key()), cstypes.KeyPool+"/")
		kid := int64(-1)
		if strings.HasPrefix(key, "pool-") {
			kid = denomRank(strings.TrimPrefix(key, "pool-"))
		}
		pools = append(pools, lib.Pair(lib.Z(kid), m.poolTerm(x, p)))
		n++
	}
	it.Close()
	if c == x.A {
		s.nPools = n
	}
	type ie struct {
		n  int64
		id int64
	}
	var idx []ie
	it = storetypes.KVStorePrefixIterator(store, []byte(cstypes.KeyPoolLptDenom+"/"))
	for ; it.Valid(); it.Next() {
		lpt := strings.TrimPrefix(string(it.Key()), cstypes.KeyPoolLptDenom+"/")
		nn := int64(-1)
		if v, err := cstypes.ParseLptDenom(lpt); err == nil {
			nn = int64(v)
		}
		var sv gogotypes.StringValue
		cdc.MustUnmarshal(it.Value(), &sv)
		id := int64(-1)
		if strings.HasPrefix(sv.Value, "pool-") {
			id = denomRank(strings.TrimPrefix(sv.Value, "pool-"))
		}
		idx = append(idx, ie{nn, id})
	}
	it.Close()
	sort.SliceStable(idx, func(i, j int) bool { return idx[i].n < idx[j].n })
	var idxT []string
	for _, e := range idx {
		idxT = append(idxT, lib.Pair(lib.Z(e.n), lib.Z(e.id)))
	}
	return lib.App("mkState", csParamsTerm(pr.Params), lib.Z(csDenomRank(c.Coinswap.GetStandardDenom(c.Ctx))), lib.ZU(seq), lib.L(pools...), lib.L(idxT...))
}

func (m coinswapMod) Genesis(x *X, c *Chain, raw json.RawMessage) string {
	var gs cstypes.GenesisState
	c.App.AppCodec().MustUnmarshalJSON(raw, &gs)
	var pools []string
	for _, p := range gs.Pool {
		pools = append(pools, m.poolTerm(x, p))
	}
	return lib.App("mkGenesis", csParamsTerm(gs.Params), lib.Z(csDenomRank(gs.StandardDenom)), lib.L(pools...), lib.ZU(gs.Sequence))
}

// LiquidityPool on A and on B for every pool of A
func (m coinswapMod) Cross(x *X, a, b *Chain) string {
	q := func(c *Chain, lpt string) [3]string {
		if c == nil {
			return [3]string{"(-1)", "(-1)", "(-1)"}
		}
		resp, err := c.Coinswap.LiquidityPool(c.Ctx, &cstypes.QueryLiquidityPoolRequest{LptDenom: lpt})
		if err != nil {
			return [3]string{"(-1)", "(-1)", "(-1)"}
		}
		return [3]string{lib.ZI(resp.Pool.Standard.Amount), lib.ZI(resp.Pool.Token.Amount), lib.ZI(resp.Pool.Lpt.Amount)}
	}
	var out []string
	for _, p := range a.Coinswap.GetAllPools(a.Ctx) {
		n, _ := cstypes.ParseLptDenom(p.LptDenom)
		qa, qb := q(a, p.LptDenom), q(b, p.LptDenom)
		out = append(out, lib.Pair(lib.ZU(n), qa[0], qa[1], qa[2], qb[0], qb[1], qb[2]))
	}
	return lib.L(out...)
}

func (m coinswapMod) Case(x *X, runs []string) string { return lib.App("mkCase", lib.L(runs...)) }

// non-trivial: at least two pools exist and one of them was emptied (all liquidity withdrawn);
// coinswap has no time-bound objects
func (m coinswapMod) NonTrivial(x *X) bool {
	s := m.scratch(x)
	return s.nPools >= 2 && s.emptied
}

var _ = fmt.Sprint
