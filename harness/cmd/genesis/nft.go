package main

// nft: classes, mints to several owners, edits, transfers, burns, class hand-over.
// State = classes (Denoms query) each with its NFTs (GetNFTs: id, owner, texts); views = Supply per
// class and NFTsOfOwner per (actor, class).

import (
	"encoding/json"
	"fmt"
	"os"
	"sort"
	"strings"

	sdk "github.com/cosmos/cosmos-sdk/types"

	nfttypes "mods.irisnet.org/modules/nft/types"

	"verifharness/lib"
)

type nftMod struct{}

func init() { register(nftMod{}) }

type nftScratch struct {
	blobs  *lib.Interner
	burned bool
	owners int
}

func (nftMod) scratch(x *X) *nftScratch {
	if s, ok := x.Scratch["nft"]; ok {
		return s.(*nftScratch)
	}
	s := &nftScratch{blobs: lib.NewInterner()}
	x.Scratch["nft"] = s
	return s
}

func (nftMod) Name() string   { return "nft" }
func (nftMod) Deps() []string { return nil }

var nftClasses = []string{"aclass", "bclass", "cclass"}
var nftIDs = []string{"nft1", "nft2", "nft3", "nft4", "nft5"}
var nftTexts = []string{"", "text-1", "ipfs://abc", "[do-not-modify]"}
var nftData = []string{"", `{"a":1}`, `{"b":"x"}`}

func nftRank(universe []string, v string) int64 {
	all := append([]string{}, universe...)
	sort.Strings(all)
	for i, s := range all {
		if s == v {
			return int64(i)
		}
	}
	return -1
}

// issue:    A = [sender, class index, flags (bit 0 mint restricted, bit 1 update restricted), text]
// mint:     A = [sender kind (0 class owner, 1 other), class index, id index, recipient, text]
// edit:     A = [sender kind (0 owner of the NFT, 1 other), class index, id index, text]
// transfer: A = [sender kind, class index, id index, recipient]
// burn:     A = [sender kind, class index, id index]
// handover: A = [sender kind, class index, recipient]
func (nftMod) Gen(r *lib.Rand, tier string) []Step {
	n := 5 + r.Intn(12)
	if tier == "thorough" {
		n = 5 + r.Intn(40)
	}
	var out []Step
	for i := 0; i < n; i++ {
		w := r.Weighted(2, 6, 2, 3, 2, 1, 1)
		if i == 0 {
			w = 0
		}
		kind := int64(r.Weighted(7, 1))
		switch w {
		case 0:
			out = append(out, Step{M: "nft", Op: "issue", A: []int64{int64(r.Intn(3)), int64(r.Intn(len(nftClasses))), int64(r.Weighted(4, 1, 1, 1)), int64(r.Intn(len(nftTexts)))}})
		case 1:
			out = append(out, Step{M: "nft", Op: "mint", A: []int64{kind, int64(r.Intn(len(nftClasses))), int64(r.Intn(len(nftIDs))), int64(r.Intn(3)), int64(r.Intn(len(nftTexts)))}})
		case 2:
			out = append(out, Step{M: "nft", Op: "edit", A: []int64{kind, int64(r.Intn(len(nftClasses))), int64(r.Intn(len(nftIDs))), int64(r.Intn(len(nftTexts)))}})
		case 3:
			out = append(out, Step{M: "nft", Op: "transfer", A: []int64{kind, int64(r.Intn(len(nftClasses))), int64(r.Intn(len(nftIDs))), int64(r.Intn(3))}})
		case 4:
			out = append(out, Step{M: "nft", Op: "burn", A: []int64{kind, int64(r.Intn(len(nftClasses))), int64(r.Intn(len(nftIDs)))}})
		case 5:
			out = append(out, Step{M: "nft", Op: "handover", A: []int64{kind, int64(r.Intn(len(nftClasses))), int64(r.Intn(3))}})
		case 6:
			out = append(out, Step{Op: "block"})
		}
	}
	return out
}

// an existing class (preferring the indexed one) and one of its NFTs
func (nftMod) pickClass(c *Chain, i int64) (nfttypes.Denom, bool) {
	resp, err := c.Nft.Denoms(c.Ctx, &nfttypes.QueryDenomsRequest{})
	if err != nil || len(resp.Denoms) == 0 {
		return nfttypes.Denom{}, false
	}
	return resp.Denoms[int(i)%len(resp.Denoms)], true
}

func (m nftMod) pickNFT(c *Chain, ci, ni int64) (nfttypes.Denom, string, string, bool) {
	d, ok := m.pickClass(c, ci)
	if !ok {
		return d, "", "", false
	}
	// prefer a class that has NFTs
	resp, _ := c.Nft.Denoms(c.Ctx, &nfttypes.QueryDenomsRequest{})
	for k := 0; k < len(resp.Denoms); k++ {
		dd := resp.Denoms[(int(ci)+k)%len(resp.Denoms)]
		nfts, err := c.Nft.GetNFTs(c.Ctx, dd.Id)
		if err == nil && len(nfts) > 0 {
			n := nfts[int(ni)%len(nfts)]
			return dd, n.GetID(), n.GetOwner().String(), true
		}
	}
	return d, "", "", false
}

func (m nftMod) Apply(x *X, st Step) string {
	a := x.A
	s := m.scratch(x)
	addr := func(i int64) string { return a.Actors[int(i)%3].String() }
	other := func(owner string) string {
		for i := int64(0); i < 3; i++ {
			if addr(i) != owner {
				return addr(i)
			}
		}
		return owner
	}
	who := func(owner string, kind int64) string {
		if kind == 0 {
			return owner
		}
		return other(owner)
	}
	switch st.Op {
	case "issue":
		t := nftTexts[int(st.A[3])%len(nftTexts)]
		if t == "[do-not-modify]" {
			t = "schema"
		}
		o := a.Deliver(&nfttypes.MsgIssueDenom{Id: nftClasses[int(st.A[1])%len(nftClasses)], Name: "name-" + t, Schema: t, Sender: addr(st.A[0]), Symbol: "sym",
			MintRestricted: st.A[2]&1 == 1, UpdateRestricted: st.A[2]&2 == 2, Description: t, Uri: "uri:" + t, UriHash: "hash" + t, Data: nftData[int(st.A[3])%len(nftData)]})
		if os.Getenv("VERIF_DEBUG") != "" && !o.OK() {
			fmt.Fprintln(os.Stderr, "nft.issue:", o.Err)
		}
		return o.Kind
	case "mint":
		d, ok := m.pickClass(a, st.A[1])
		if !ok {
			return "rej"
		}
		t := nftTexts[int(st.A[4])%3]
		return a.Deliver(&nfttypes.MsgMintNFT{Id: nftIDs[int(st.A[2])%len(nftIDs)], DenomId: d.Id, Name: "n" + t, URI: t, Data: nftData[int(st.A[4])%len(nftData)], Sender: who(d.Creator, st.A[0]),
			Recipient: addr(st.A[3]), UriHash: t}).Kind
	case "edit":
		d, id, owner, ok := m.pickNFT(a, st.A[1], st.A[2])
		if !ok {
			return "rej"
		}
		t := nftTexts[int(st.A[3])%len(nftTexts)]
		return a.Deliver(&nfttypes.MsgEditNFT{Id: id, DenomId: d.Id, Name: t, URI: t, Data: "[do-not-modify]", Sender: who(owner, st.A[0]), UriHash: "[do-not-modify]"}).Kind
	case "transfer":
		d, id, owner, ok := m.pickNFT(a, st.A[1], st.A[2])
		if !ok {
			return "rej"
		}
		uri := "[do-not-modify]"
		if (st.A[2]+st.A[3])%4 == 3 {
			// an over-long URI: rejected since "fix: nft MsgTransferNFT validates the token URI length"
			// (before it, the transfer stored a URI that genesis validation rejects)
			uri = strings.Repeat("u", 257)
		} else if (st.A[2]+st.A[3])%4 == 2 {
			uri = "ipfs://moved"
		}
		return a.Deliver(&nfttypes.MsgTransferNFT{Id: id, DenomId: d.Id, Name: "[do-not-modify]", URI: uri, Data: "[do-not-modify]",
			Sender: who(owner, st.A[0]), Recipient: addr(st.A[3]), UriHash: "[do-not-modify]"}).Kind
	case "burn":
		d, id, owner, ok := m.pickNFT(a, st.A[1], st.A[2])
		if !ok {
			return "rej"
		}
		o := a.Deliver(&nfttypes.MsgBurnNFT{Id: id, DenomId: d.Id, Sender: who(owner, st.A[0])})
		if o.OK() {
			s.burned = true
		}
		return o.Kind
	case "handover":
		d, ok := m.pickClass(a, st.A[1])
		if !ok {
			return "rej"
		}
		return a.Deliver(&nfttypes.MsgTransferDenom{Id: d.Id, Sender: who(d.Creator, st.A[0]), Recipient: addr(st.A[2])}).Kind
	}
	return "rej"
}

func (nftMod) Prep(x *X, c *Chain) bool { return false }

func (m nftMod) dinfoTerm(x *X, c *Chain, d nfttypes.Denom) string {
	s := m.scratch(x)
	flags := int64(0)
	if d.MintRestricted {
		flags |= 1
	}
	if d.UpdateRestricted {
		flags |= 2
	}
	blob, _ := json.Marshal([]string{d.Name, d.Schema, d.Symbol, d.Description, d.Uri, d.UriHash, d.Data})
	return lib.Pair(lib.Z(actorIdx(c, d.Creator)), lib.B(nfttypes.ValidateDenomID(d.Id) == nil), lib.Z(flags), lib.Z(int64(s.blobs.Id(string(blob)))))
}

func (m nftMod) ninfoTerm(x *X, c *Chain, owner sdk.AccAddress, id, name, uri, uriHash, data string) string {
	s := m.scratch(x)
	o := int64(-1)
	if !owner.Empty() {
		o = actorIdx(c, owner.String())
		if o < 0 {
			o = 50 // an address outside the actor universe
		}
	}
	blob, _ := json.Marshal([]string{name, uri, uriHash, data})
	return lib.Pair(lib.Z(o), lib.B(nfttypes.ValidateTokenID(id) == nil), lib.B(nfttypes.ValidateTokenURI(uri) == nil), lib.Z(int64(s.blobs.Id(string(blob)))))
}

func (m nftMod) State(x *X, c *Chain) string {
	resp, err := c.Nft.Denoms(c.Ctx, &nfttypes.QueryDenomsRequest{})
	if err != nil {
		panic(err)
	}
	var cols []string
	for _, d := range resp.Denoms {
		nfts, err := c.Nft.GetNFTs(c.Ctx, d.Id)
		if err != nil {
			x.Notes = append(x.Notes, "nft: GetNFTs fails for class "+d.Id)
		}
		var ns []string
		for _, n := range nfts {
			ns = append(ns, lib.Pair(lib.Z(nftRank(nftIDs, n.GetID())), m.ninfoTerm(x, c, n.GetOwner(), n.GetID(), n.GetName(), n.GetURI(), n.GetURIHash(), n.GetData())))
			// the NFT query must show the same owner
			q, err := c.Nft.NFT(c.Ctx, &nfttypes.QueryNFTRequest{DenomId: d.Id, TokenId: n.GetID()})
			if err != nil || q.NFT.Owner != n.GetOwner().String() {
				x.Notes = append(x.Notes, "nft "+d.Id+"/"+n.GetID()+": NFT query disagrees with GetNFTs")
			}
		}
		cols = append(cols, lib.Pair(lib.Z(nftRank(nftClasses, d.Id)), lib.Pair(m.dinfoTerm(x, c, d), lib.L(ns...))))
	}
	return lib.L(cols...)
}

// views: Supply per class; NFTsOfOwner per (actor, class), flattened and sorted
func (m nftMod) views(x *X, c *Chain) string {
	s := m.scratch(x)
	resp, err := c.Nft.Denoms(c.Ctx, &nfttypes.QueryDenomsRequest{})
	if err != nil {
		return lib.Pair("[]", "[]")
	}
	var sup []string
	type tr struct{ o, d, n int64 }
	var flat []tr
	owners := map[int64]bool{}
	for _, d := range resp.Denoms {
		q, err := c.Nft.Supply(c.Ctx, &nfttypes.QuerySupplyRequest{DenomId: d.Id})
		v := uint64(0)
		if err == nil {
			v = q.Amount
		}
		sup = append(sup, lib.Pair(lib.Z(nftRank(nftClasses, d.Id)), lib.ZU(v)))
		for i, a := range c.Actors {
			o, err := c.Nft.NFTsOfOwner(c.Ctx, &nfttypes.QueryNFTsOfOwnerRequest{DenomId: d.Id, Owner: a.String()})
			if err != nil {
				continue
			}
			for _, idc := range o.Owner.IDCollections {
				for _, id := range idc.TokenIds {
					flat = append(flat, tr{int64(i), nftRank(nftClasses, idc.DenomId), nftRank(nftIDs, id)})
					owners[int64(i)] = true
				}
			}
		}
	}
	if c == x.A {
		s.owners = len(owners)
	}
	sort.Slice(flat, func(i, j int) bool {
		a, b := flat[i], flat[j]
		if a.o != b.o {
			return a.o < b.o
		}
		if a.d != b.d {
			return a.d < b.d
		}
		return a.n < b.n
	})
	var ov []string
	for _, f := range flat {
		ov = append(ov, lib.Pair(lib.Pair(lib.Z(f.o), lib.Z(f.d), lib.Z(f.n)), "tt"))
	}
	return lib.Pair(lib.L(sup...), lib.L(ov...))
}

func (m nftMod) Genesis(x *X, c *Chain, raw json.RawMessage) string {
	var gs nfttypes.GenesisState
	c.App.AppCodec().MustUnmarshalJSON(raw, &gs)
	var cols []string
	for _, col := range gs.Collections {
		var ns []string
		for _, n := range col.NFTs {
			ns = append(ns, lib.Pair(lib.Z(nftRank(nftIDs, n.Id)), m.ninfoTerm(x, c, n.GetOwner(), n.Id, n.Name, n.URI, n.UriHash, n.Data)))
		}
		cols = append(cols, lib.Pair(lib.Z(nftRank(nftClasses, col.Denom.Id)), lib.Pair(m.dinfoTerm(x, c, col.Denom), lib.L(ns...))))
	}
	return lib.L(cols...)
}

// the views on A and (if the import succeeded) on B
func (m nftMod) Cross(x *X, a, b *Chain) string {
	vb := "None"
	if x.Scratch["importOK"] == true {
		vb = "(Some " + m.views(x, b) + ")"
	}
	return m.views(x, a) + " " + vb
}

func (m nftMod) Case(x *X, runs []string) string { return lib.App("mkCase", lib.L(runs...)) }

// non-trivial: NFTs are held by at least two owners and one NFT was burned (an owner's list shrank);
// the nft module has no time-bound objects
func (m nftMod) NonTrivial(x *X) bool {
	s := m.scratch(x)
	return s.owners >= 2 && s.burned
}

var _ = fmt.Sprint

// Tamper: damage the exported genesis (see main.go: Tamperer)
func (m nftMod) Tamper(x *X, c *Chain, raw json.RawMessage, k int) (json.RawMessage, string, bool) {
	var gs nfttypes.GenesisState
	c.App.AppCodec().MustUnmarshalJSON(raw, &gs)
	if len(gs.Collections) == 0 {
		return nil, "", false
	}
	withNFT := -1
	for i, col := range gs.Collections {
		if len(col.NFTs) > 0 {
			withNFT = i
		}
	}
	what := ""
	switch k % 5 {
	case 0:
		what = "duplicate-class"
		dup := gs.Collections[len(gs.Collections)-1]
		dup.NFTs = nil
		gs.Collections = append(gs.Collections, dup)
	case 1:
		if withNFT < 0 {
			return nil, "", false
		}
		what = "duplicate-nft"
		col := gs.Collections[withNFT]
		col.NFTs = append(append([]nfttypes.BaseNFT{}, col.NFTs...), col.NFTs[0])
		gs.Collections[withNFT] = col
	case 2:
		what = "creator-missing"
		gs.Collections[0].Denom.Creator = ""
	case 3:
		if withNFT < 0 {
			return nil, "", false
		}
		what = "owner-missing"
		col := gs.Collections[withNFT]
		col.NFTs = append([]nfttypes.BaseNFT{}, col.NFTs...)
		col.NFTs[0].Owner = ""
		gs.Collections[withNFT] = col
	case 4:
		what = "untouched"
	}
	return c.App.AppCodec().MustMarshalJSON(&gs), what, true
}
