package main

// mt: classes, MTs, mints to several holders, transfers, burns (partial and complete), edits,
// class hand-over, with amounts over the whole uint64 range.
// State = classes, MT records as stored, supplies, balances (raw store, cross-checked with the gRPC
// queries), the two sequences.

import (
	"bytes"
	"crypto/sha256"
	"encoding/json"
	"fmt"
	"sort"
	"strconv"

	storetypes "cosmossdk.io/store/types"

	mttypes "mods.irisnet.org/modules/mt/types"

	"verifharness/lib"
)

type mtMod struct{}

func init() { register(mtMod{}) }

type mtScratch struct {
	denomIDs []string            // ids of the classes created on A, creation order
	mtIDs    map[string][]string // class id -> MT ids, creation order
	str      *lib.Interner
	rank     map[string]int64
	holders  map[string]bool
	emptied  bool
}

func (mtMod) scratch(x *X) *mtScratch {
	if s, ok := x.Scratch["mt"]; ok {
		return s.(*mtScratch)
	}
	s := &mtScratch{mtIDs: map[string][]string{}, str: lib.NewInterner()}
	// ranks: byte order among the ids the two sequences can generate, and among the actors' addresses
	var all []string
	for n := 1; n <= 80; n++ {
		all = append(all, fmt.Sprintf("%x", sha256.Sum256([]byte(fmt.Sprintf("mt-denom-%d", n)))))
		all = append(all, fmt.Sprintf("%x", sha256.Sum256([]byte(fmt.Sprintf("mt-%d", n)))))
	}
	for i := 0; i < NActors; i++ {
		all = append(all, lib.ActorAddr(i).String())
	}
	sort.Strings(all)
	s.rank = map[string]int64{}
	for i, v := range all {
		s.rank[v] = int64(i)
	}
	x.Scratch["mt"] = s
	return s
}

func (m mtMod) rk(x *X, id string) int64 {
	if v, ok := m.scratch(x).rank[id]; ok {
		return v
	}
	x.Notes = append(x.Notes, "mt: identifier outside the universe: "+id)
	return -1
}

func (mtMod) Name() string   { return "mt" }
func (mtMod) Deps() []string { return nil }

// issue:    A = [sender, name index]
// mint:     A = [sender, class index, MT index (-1: new), recipient (-1: sender)]  S = [amount]
// transfer: A = [sender, class index, MT index, recipient]                         S = [amount | "all"]
// burn:     A = [sender, class index, MT index]                                    S = [amount | "all"]
// edit:     A = [sender, class index, MT index, data index]
// handover: A = [sender, class index, recipient]
func (mtMod) Gen(r *lib.Rand, tier string) []Step {
	n := 6 + r.Intn(14)
	if tier == "thorough" {
		n = 6 + r.Intn(40)
	}
	amount := func() string {
		switch r.Weighted(6, 2, 1, 1) {
		case 0:
			return strconv.FormatUint(uint64(1+r.Intn(1000)), 10)
		case 1:
			return r.Big(64).String()
		case 2:
			return "18446744073709551615"
		}
		return "0" // rejected
	}
	var out []Step
	out = append(out, Step{M: "mt", Op: "issue", A: []int64{int64(r.Intn(2)), int64(r.Intn(3))}})
	nd, nm := 1, 0
	for i := 0; i < n; i++ {
		switch r.Weighted(2, 6, 5, 3, 1, 1, 2) {
		case 0:
			out = append(out, Step{M: "mt", Op: "issue", A: []int64{int64(r.Intn(3)), int64(r.Intn(3))}})
			nd++
		case 1:
			mi := int64(-1)
			if nm > 0 && r.Chance(1, 2) {
				mi = int64(r.Intn(nm))
			} else {
				nm++
			}
			rec := int64(r.Intn(NActors+1) - 1)
			out = append(out, Step{M: "mt", Op: "mint", A: []int64{int64(r.Intn(3)), int64(r.Intn(nd)), mi, rec}, S: []string{amount()}})
		case 2:
			amt := amount()
			if r.Chance(1, 3) {
				amt = "all"
			}
			out = append(out, Step{M: "mt", Op: "transfer", A: []int64{int64(r.Intn(NActors)), int64(r.Intn(nd)), int64(r.Intn(nm + 1)), int64(r.Intn(NActors))}, S: []string{amt}})
		case 3:
			amt := amount()
			if r.Chance(1, 2) {
				amt = "all"
			}
			out = append(out, Step{M: "mt", Op: "burn", A: []int64{int64(r.Intn(NActors)), int64(r.Intn(nd)), int64(r.Intn(nm + 1))}, S: []string{amt}})
		case 4:
			out = append(out, Step{M: "mt", Op: "edit", A: []int64{int64(r.Intn(3)), int64(r.Intn(nd)), int64(r.Intn(nm + 1)), int64(r.Intn(4))}})
		case 5:
			out = append(out, Step{M: "mt", Op: "handover", A: []int64{int64(r.Intn(3)), int64(r.Intn(nd)), int64(r.Intn(3))}})
		case 6:
			out = append(out, Step{Op: "block"})
		}
	}
	return out
}

var mtNames = []string{"gold", "silver medal", "x"}
var mtData = [][]byte{nil, []byte("data-1"), []byte(`{"k":"v"}`), []byte("[do-not-modify]")}

func (m mtMod) pick(x *X, di, mi int64) (denom, mt string, ok bool) {
	s := m.scratch(x)
	if len(s.denomIDs) == 0 {
		return "", "", false
	}
	denom = s.denomIDs[int(di)%len(s.denomIDs)]
	l := s.mtIDs[denom]
	if len(l) == 0 {
		return denom, "", false
	}
	return denom, l[int(mi)%len(l)], true
}

func (m mtMod) amountArg(x *X, st Step, denom, mt string, holder int64) uint64 {
	if len(st.S) == 0 {
		return 1
	}
	if st.S[0] == "all" {
		return x.A.Mt.GetBalance(x.A.Ctx, denom, mt, x.A.Actors[holder])
	}
	v, _ := strconv.ParseUint(st.S[0], 10, 64)
	return v
}

func (m mtMod) Apply(x *X, st Step) string {
	s := m.scratch(x)
	a := x.A
	addr := func(i int64) string { return a.Actors[int(i)%NActors].String() }
	switch st.Op {
	case "issue":
		before := len(m.denomList(x, a))
		o := a.Deliver(&mttypes.MsgIssueDenom{Name: mtNames[int(st.A[1])%len(mtNames)], Sender: addr(st.A[0]), Data: mtData[int(st.A[1])%len(mtData)]})
		if o.OK() {
			// the new class is the one the Denoms query did not show before
			seq := before + 1
			_ = seq
			known := map[string]bool{}
			for _, d := range s.denomIDs {
				known[d] = true
			}
			for _, d := range m.denomList(x, a) {
				if !known[d.Id] {
					s.denomIDs = append(s.denomIDs, d.Id)
				}
			}
		}
		return o.Kind
	case "mint":
		if len(s.denomIDs) == 0 {
			return "rej"
		}
		denom := s.denomIDs[int(st.A[1])%len(s.denomIDs)]
		id := ""
		if st.A[2] >= 0 && len(s.mtIDs[denom]) > 0 {
			id = s.mtIDs[denom][int(st.A[2])%len(s.mtIDs[denom])]
		}
		// the class owner mints (the generated sender is used in a minority of cases: mostly rejected)
		sender := addr(st.A[0])
		if d, found := a.Mt.GetDenom(a.Ctx, denom); found && st.A[0] != 2 {
			sender = d.Owner
		}
		rec := ""
		if st.A[3] >= 0 {
			rec = addr(st.A[3])
		}
		amt, _ := strconv.ParseUint(st.S[0], 10, 64)
		var data []byte
		if id == "" {
			data = mtData[int(st.A[2]+4)%3]
		}
		o := a.Deliver(&mttypes.MsgMintMT{Id: id, DenomId: denom, Amount: amt, Data: data, Sender: sender, Recipient: rec})
		if o.OK() && id == "" {
			known := map[string]bool{}
			for _, t := range s.mtIDs[denom] {
				known[t] = true
			}
			for _, t := range a.Mt.GetMTs(a.Ctx, denom) {
				if !known[t.GetID()] {
					s.mtIDs[denom] = append(s.mtIDs[denom], t.GetID())
				}
			}
		}
		return o.Kind
	case "transfer":
		denom, mt, ok := m.pick(x, st.A[1], st.A[2])
		if !ok {
			return "rej"
		}
		amt := m.amountArg(x, st, denom, mt, st.A[0]%NActors)
		o := a.Deliver(&mttypes.MsgTransferMT{Id: mt, DenomId: denom, Sender: addr(st.A[0]), Recipient: addr(st.A[3]), Amount: amt})
		if o.OK() && st.S[0] == "all" && st.A[0]%NActors != st.A[3]%NActors {
			s.emptied = true
		}
		return o.Kind
	case "burn":
		denom, mt, ok := m.pick(x, st.A[1], st.A[2])
		if !ok {
			return "rej"
		}
		amt := m.amountArg(x, st, denom, mt, st.A[0]%NActors)
		o := a.Deliver(&mttypes.MsgBurnMT{Id: mt, DenomId: denom, Sender: addr(st.A[0]), Amount: amt})
		if o.OK() && st.S[0] == "all" {
			s.emptied = true
		}
		return o.Kind
	case "edit":
		denom, mt, ok := m.pick(x, st.A[1], st.A[2])
		if !ok {
			return "rej"
		}
		sender := addr(st.A[0])
		if d, found := a.Mt.GetDenom(a.Ctx, denom); found && st.A[0] != 2 {
			sender = d.Owner
		}
		return a.Deliver(&mttypes.MsgEditMT{Id: mt, DenomId: denom, Sender: sender, Data: mtData[int(st.A[3])%len(mtData)]}).Kind
	case "handover":
		if len(s.denomIDs) == 0 {
			return "rej"
		}
		denom := s.denomIDs[int(st.A[1])%len(s.denomIDs)]
		sender := addr(st.A[0])
		if d, found := a.Mt.GetDenom(a.Ctx, denom); found && st.A[0] != 2 {
			sender = d.Owner
		}
		return a.Deliver(&mttypes.MsgTransferDenom{Id: denom, Sender: sender, Recipient: addr(st.A[2])}).Kind
	}
	return "rej"
}

func (mtMod) Prep(x *X, c *Chain) bool { return false }

func (m mtMod) denomList(x *X, c *Chain) []mttypes.Denom {
	resp, err := c.Mt.Denoms(c.Ctx, &mttypes.QueryDenomsRequest{})
	if err != nil {
		panic(err)
	}
	return resp.Denoms
}

func (m mtMod) bytesID(x *X, b []byte) int64 { return int64(m.scratch(x).str.Id(string(b))) }

func (m mtMod) dinfoTerm(x *X, c *Chain, d mttypes.Denom) string {
	return lib.Pair(lib.Z(m.bytesID(x, []byte(d.Name))), lib.Z(m.ownerRank(x, c, d.Owner)), lib.Z(m.bytesID(x, d.Data)))
}

func (m mtMod) ownerRank(x *X, c *Chain, bech string) int64 {
	if actorIdx(c, bech) < 0 {
		return -1
	}
	return m.rk(x, bech)
}

func (m mtMod) State(x *X, c *Chain) string {
	s := m.scratch(x)
	store := c.Ctx.KVStore(c.App.GetKey(mttypes.StoreKey))
	cdc := c.App.AppCodec()
	// MT records as stored (raw), keys "\x02/<class>/<mt>", grouped by class
	mtsOf := map[string][]string{}
	it := storetypes.KVStorePrefixIterator(store, mttypes.PrefixMT)
	for ; it.Valid(); it.Next() {
		parts := bytes.Split(it.Key(), mttypes.Delimiter)
		var t mttypes.MT
		cdc.MustUnmarshal(it.Value(), &t)
		mtsOf[string(parts[1])] = append(mtsOf[string(parts[1])], lib.Pair(lib.Z(m.rk(x, string(parts[2]))), lib.Pair(lib.Z(m.bytesID(x, t.Data)), lib.ZU(t.Supply))))
		// the gRPC MT query must show the same data
		q, err := c.Mt.MT(c.Ctx, &mttypes.QueryMTRequest{DenomId: string(parts[1]), MtId: string(parts[2])})
		if err != nil || !bytes.Equal(q.Mt.Data, t.Data) {
			x.Notes = append(x.Notes, fmt.Sprintf("mt %s/%s: gRPC MT query disagrees with the store", parts[1], parts[2]))
		}
	}
	it.Close()
	// classes through the gRPC query, each with its MTs
	var cols []string
	for _, d := range m.denomList(x, c) {
		cols = append(cols, lib.Pair(lib.Z(m.rk(x, d.Id)), lib.Pair(m.dinfoTerm(x, c, d), lib.L(mtsOf[d.Id]...))))
		delete(mtsOf, d.Id)
	}
	for id := range mtsOf {
		x.Notes = append(x.Notes, "mt: MTs stored for a class that does not exist: "+id)
	}
	// supplies (raw): "\x04/<class>/" class supply, "\x04/<class>/<mt>" MT supply
	var msup, dsup []string
	it = storetypes.KVStorePrefixIterator(store, mttypes.PrefixSupply)
	for ; it.Valid(); it.Next() {
		parts := bytes.Split(it.Key(), mttypes.Delimiter)
		v := mttypes.MustUnMarshalSupply(cdc, it.Value())
		if len(parts) < 3 || len(parts[2]) == 0 {
			dsup = append(dsup, lib.Pair(lib.Z(m.rk(x, string(parts[1]))), lib.ZU(v)))
			continue
		}
		msup = append(msup, lib.Pair(lib.Pair(lib.Z(m.rk(x, string(parts[1]))), lib.Z(m.rk(x, string(parts[2])))), lib.ZU(v)))
		q, err := c.Mt.MTSupply(c.Ctx, &mttypes.QueryMTSupplyRequest{DenomId: string(parts[1]), MtId: string(parts[2])})
		if err != nil || q.Amount != v {
			x.Notes = append(x.Notes, fmt.Sprintf("mt %s/%s: gRPC MTSupply disagrees with the store", parts[1], parts[2]))
		}
	}
	it.Close()
	// balances (raw): "\x03/<owner bech32>/<class>/<mt>"
	var bs []string
	holders := map[string]bool{}
	it = storetypes.KVStorePrefixIterator(store, mttypes.PrefixBalance)
	for ; it.Valid(); it.Next() {
		parts := bytes.Split(it.Key(), mttypes.Delimiter)
		v := mttypes.MustUnMarshalAmount(cdc, it.Value())
		owner, denom, mt := string(parts[1]), string(parts[2]), string(parts[3])
		bs = append(bs, lib.Pair(lib.Pair(lib.Z(m.ownerRank(x, c, owner)), lib.Z(m.rk(x, denom)), lib.Z(m.rk(x, mt))), lib.ZU(v)))
		if v > 0 {
			holders[owner] = true
		}
		// the gRPC Balances query must show the same amount
		q, err := c.Mt.Balances(c.Ctx, &mttypes.QueryBalancesRequest{Owner: owner, DenomId: denom})
		ok := false
		if err == nil {
			for _, b := range q.Balance {
				if b.MtId == mt && b.Amount == v {
					ok = true
				}
			}
		}
		if !ok {
			x.Notes = append(x.Notes, fmt.Sprintf("mt balance %s/%s/%s: gRPC Balances disagrees with the store", owner, denom, mt))
		}
	}
	it.Close()
	if c == x.A {
		s.holders = holders
	}
	return lib.App("mkState", lib.L(cols...), lib.L(msup...), lib.L(dsup...), lib.L(bs...),
		lib.ZU(c.Mt.GetDenomSequence(c.Ctx)), lib.ZU(c.Mt.GetMTSequence(c.Ctx)))
}

func (m mtMod) Genesis(x *X, c *Chain, raw json.RawMessage) string {
	var gs mttypes.GenesisState
	c.App.AppCodec().MustUnmarshalJSON(raw, &gs)
	var cols []string
	for _, col := range gs.Collections {
		var ts []string
		for _, t := range col.Mts {
			ts = append(ts, lib.Pair(lib.Z(m.rk(x, t.Id)), lib.Pair(lib.Z(m.bytesID(x, t.Data)), lib.ZU(t.Supply))))
		}
		cols = append(cols, lib.Pair(lib.Pair(lib.Z(m.rk(x, col.Denom.Id)), m.dinfoTerm(x, c, *col.Denom)), lib.L(ts...)))
	}
	// the owners part, flattened in export order
	type fb struct {
		o, d, t int64
		v       uint64
	}
	var flat []fb
	for _, o := range gs.Owners {
		for _, d := range o.Denoms {
			for _, b := range d.Balances {
				flat = append(flat, fb{m.ownerRank(x, c, o.Address), m.rk(x, d.DenomId), m.rk(x, b.MtId), b.Amount})
			}
		}
	}
	// (not sorted here: since "fix: mt genesis export lists owners, denoms and balances in store key order" the
	// export itself is in key order, which is the model's canonical order — the fixpoint clause is exact)
	var bs []string
	for _, f := range flat {
		bs = append(bs, lib.Pair(lib.Pair(lib.Z(f.o), lib.Z(f.d), lib.Z(f.t)), lib.ZU(f.v)))
	}
	return lib.App("mkGenesis", lib.L(cols...), lib.L(bs...))
}

func (mtMod) Cross(x *X, a, b *Chain) string { return "" }

func (m mtMod) Case(x *X, runs []string) string { return lib.App("mkCase", lib.L(runs...)) }

// non-trivial: an MT is held by at least two owners and some balance was emptied (burned or
// transferred away completely); MT has no time-bound objects
func (m mtMod) NonTrivial(x *X) bool {
	s := m.scratch(x)
	return len(s.holders) >= 2 && s.emptied
}

// Tamper: damage the exported genesis (see main.go: Tamperer)
func (m mtMod) Tamper(x *X, c *Chain, raw json.RawMessage, k int) (json.RawMessage, string, bool) {
	var gs mttypes.GenesisState
	c.App.AppCodec().MustUnmarshalJSON(raw, &gs)
	var denom, mt string
	for _, col := range gs.Collections {
		if len(col.Mts) > 0 {
			denom, mt = col.Denom.Id, col.Mts[0].Id
		}
	}
	what := ""
	switch k % 3 {
	case 0:
		if denom == "" {
			return nil, "", false
		}
		// two further balances of 2^63: the validation's uint64 sum wraps back to the exported supply
		what = "balances-wrap-uint64"
		for i := 0; i < 2; i++ {
			gs.Owners = append(gs.Owners, mttypes.Owner{Address: c.Actors[i].String(),
				Denoms: []mttypes.DenomBalance{{DenomId: denom, Balances: []mttypes.Balance{{MtId: mt, Amount: 1 << 63}}}}})
		}
	case 1:
		if len(gs.Owners) == 0 {
			return nil, "", false
		}
		what = "balance-of-unknown-class"
		gs.Owners = append(gs.Owners, mttypes.Owner{Address: c.Actors[0].String(),
			Denoms: []mttypes.DenomBalance{{DenomId: fmt.Sprintf("%x", sha256.Sum256([]byte("mt-denom-80"))), Balances: []mttypes.Balance{{MtId: fmt.Sprintf("%x", sha256.Sum256([]byte("mt-80"))), Amount: 1}}}}})
	case 2:
		what = "untouched"
	}
	return c.App.AppCodec().MustMarshalJSON(&gs), what, true
}
