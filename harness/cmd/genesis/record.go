package main

// record: create-record messages; state = record store in id order + the 32-bit counter.
// Ids are expressed as their SHA-256 pre-image (record, counter), found by search over counters.

import (
	"bytes"
	"crypto/sha256"
	"encoding/binary"
	"encoding/hex"
	"encoding/json"
	"fmt"
	"sort"
	"strings"

	sdk "github.com/cosmos/cosmos-sdk/types"

	recordtypes "mods.irisnet.org/modules/record/types"

	"verifharness/lib"
)

type recordMod struct{}

func init() { register(recordMod{}) }

type recordScratch struct {
	txs      *lib.Interner        // tx hash (hex, upper case as stored) -> number
	recs     []recordtypes.Record // every record ever seen on A or B (for the order table)
	seen     map[string]bool
	dup      bool
	nCreated int
}

func (recordMod) scratch(x *X) *recordScratch {
	if s, ok := x.Scratch["record"]; ok {
		return s.(*recordScratch)
	}
	s := &recordScratch{txs: lib.NewInterner(), seen: map[string]bool{}}
	x.Scratch["record"] = s
	return s
}

func (recordMod) Name() string   { return "record" }
func (recordMod) Deps() []string { return nil }

var recStrs = []string{"", "sha256:ab12", "SHA256", "ipfs://x", "meta-1", "d2", "md5", "http://y", "other"}
var recPool = [][][4]int{
	{{1, 2, 3, 4}},
	{{1, 2, 0, 0}},
	{{5, 6, 7, 8}, {1, 2, 3, 4}},
	{{1, 2, 3, 4}, {1, 2, 3, 4}},
}

func (recordMod) Gen(r *lib.Rand, tier string) []Step {
	n := 1 + r.Intn(6)
	if tier == "thorough" {
		n = 1 + r.Intn(14)
	}
	if r.Chance(1, 12) {
		n = 0
	}
	var out []Step
	for i := 0; i < n; i++ {
		creator := int64(r.Intn(3))
		pool := int64(r.Intn(len(recPool)))
		if r.Chance(1, 10) {
			pool = -1 // invalid: no contents
		}
		out = append(out, Step{M: "record", Op: "create", A: []int64{creator, pool}})
		if r.Chance(1, 3) {
			out = append(out, Step{Op: "block"})
		}
	}
	return out
}

func (m recordMod) Apply(x *X, st Step) string {
	s := m.scratch(x)
	var cs []recordtypes.Content
	if st.A[1] >= 0 {
		for _, c := range recPool[st.A[1]%int64(len(recPool))] {
			cs = append(cs, recordtypes.Content{Digest: recStrs[c[0]], DigestAlgo: recStrs[c[1]], URI: recStrs[c[2]], Meta: recStrs[c[3]]})
		}
	}
	o := x.A.Deliver(&recordtypes.MsgCreateRecord{Contents: cs, Creator: x.A.Actors[st.A[0]%NActors].String()})
	if o.OK() {
		s.nCreated++
		key := fmt.Sprintf("%d|%d", st.A[0], st.A[1])
		if s.seen[key] {
			s.dup = true
		}
		s.seen[key] = true
	}
	return o.Kind
}

func (recordMod) Prep(x *X, c *Chain) bool { return false }

func recStrIdx(s string) int {
	for i, t := range recStrs {
		if t == s {
			return i
		}
	}
	return 999
}

func (m recordMod) recTerm(x *X, c *Chain, r recordtypes.Record) string {
	s := m.scratch(x)
	var cs []string
	for _, ct := range r.Contents {
		cs = append(cs, lib.Pair(lib.Z(int64(recStrIdx(ct.Digest))), lib.Z(int64(recStrIdx(ct.DigestAlgo))),
			lib.Z(int64(recStrIdx(ct.URI))), lib.Z(int64(recStrIdx(ct.Meta)))))
	}
	creator := -1
	for i, a := range c.Actors {
		if a.String() == r.Creator {
			creator = i
		}
	}
	return lib.Pair(lib.Z(int64(s.txs.Id(strings.ToUpper(r.TxHash)))), lib.L(cs...), lib.Z(int64(creator)))
}

func (m recordMod) remember(x *X, r recordtypes.Record) {
	s := m.scratch(x)
	bz, _ := r.Marshal()
	for _, o := range s.recs {
		ob, _ := o.Marshal()
		if bytes.Equal(ob, bz) {
			return
		}
	}
	s.recs = append(s.recs, r)
}

func recordID(c *Chain, r recordtypes.Record, ctr uint32) []byte {
	bz := c.App.AppCodec().MustMarshal(&r)
	pre := make([]byte, len(bz)+4)
	copy(pre, bz)
	binary.BigEndian.PutUint32(pre[len(bz):], ctr)
	h := sha256.Sum256(pre)
	return h[:]
}

// maxCtr bounds the search for the counter in an id's pre-image.
func (m recordMod) maxCtr(x *X) uint32 { return uint32(m.scratch(x).nCreated) + 3 }

func (m recordMod) ridTerm(x *X, c *Chain, id []byte, r recordtypes.Record) string {
	for ctr := uint32(0); ctr <= m.maxCtr(x); ctr++ {
		if bytes.Equal(recordID(c, r, ctr), id) {
			return lib.Pair(m.recTerm(x, c, r), lib.Z(int64(ctr)))
		}
	}
	x.Notes = append(x.Notes, fmt.Sprintf("record id %X is not sha256(record || counter) for any counter <= %d", id, m.maxCtr(x)))
	return lib.Pair(m.recTerm(x, c, r), "(-1)")
}

type recEntry struct {
	id  []byte
	rec recordtypes.Record
}

func (m recordMod) entries(x *X, c *Chain) []recEntry {
	it := c.Record.RecordsIterator(c.Ctx)
	defer it.Close()
	var out []recEntry
	for ; it.Valid(); it.Next() {
		var r recordtypes.Record
		recordtypes.ModuleCdc.MustUnmarshal(it.Value(), &r)
		id := append([]byte{}, it.Key()[1:]...)
		out = append(out, recEntry{id, r})
		m.remember(x, r)
	}
	return out
}

// query through the gRPC server; nil if the module answers with the empty record
func recordQuery(c *Chain, id []byte) *recordtypes.Record {
	resp, err := c.Record.Record(c.Ctx, &recordtypes.QueryRecordRequest{RecordId: hex.EncodeToString(id)})
	if err != nil || resp.Record == nil || (resp.Record.TxHash == "" && len(resp.Record.Contents) == 0 && resp.Record.Creator == "") {
		return nil
	}
	return resp.Record
}

func (m recordMod) State(x *X, c *Chain) string {
	var es []string
	for _, e := range m.entries(x, c) {
		// the value shown is what the gRPC query by id returns
		q := recordQuery(c, e.id)
		if q == nil {
			x.Notes = append(x.Notes, fmt.Sprintf("record %X is in the store but the query returns nothing", e.id))
			q = &e.rec
		}
		es = append(es, lib.Pair(m.ridTerm(x, c, e.id, e.rec), m.recTerm(x, c, *q)))
	}
	return lib.App("mkState", lib.L(es...), lib.ZU(uint64(c.Record.GetIntraTxCounter(c.Ctx))))
}

func (m recordMod) Genesis(x *X, c *Chain, raw json.RawMessage) string {
	var gs recordtypes.GenesisState
	c.App.AppCodec().MustUnmarshalJSON(raw, &gs)
	var rs []string
	for _, r := range gs.Records {
		m.remember(x, r)
		rs = append(rs, m.recTerm(x, c, r))
	}
	return lib.L(rs...)
}

func (m recordMod) Cross(x *X, a, b *Chain) string {
	var out []string
	for _, e := range m.entries(x, a) {
		q := recordQuery(b, e.id)
		v := "None"
		if q != nil {
			v = "(Some " + m.recTerm(x, a, *q) + ")"
		}
		out = append(out, lib.Pair(m.ridTerm(x, a, e.id, e.rec), v))
	}
	return lib.L(out...)
}

// the order table: rank (by byte order of the SHA-256) of every pre-image (record, counter)
func (m recordMod) Case(x *X, runs []string) string {
	s := m.scratch(x)
	type pi struct {
		h    []byte
		term string
	}
	var all []pi
	for _, r := range s.recs {
		for ctr := uint32(0); ctr <= m.maxCtr(x); ctr++ {
			all = append(all, pi{recordID(x.A, r, ctr), lib.Pair(m.recTerm(x, x.A, r), lib.Z(int64(ctr)))})
		}
	}
	sort.Slice(all, func(i, j int) bool { return bytes.Compare(all[i].h, all[j].h) < 0 })
	var tbl []string
	for i, p := range all {
		tbl = append(tbl, lib.Pair(p.term, lib.Z(int64(i))))
	}
	return lib.App("mkCase", lib.L(tbl...), lib.L(runs...))
}

// non-trivial: at least two records are stored, two of them byte-identical submissions
func (m recordMod) NonTrivial(x *X) bool {
	s := m.scratch(x)
	return s.nCreated >= 2 && s.dup
}

var _ = sdk.AccAddress{}
