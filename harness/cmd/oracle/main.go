// oracle: oracle module driver (property C17).
//
// The history drives the REAL service module underneath the oracle: a service is defined,
// 1-3 providers bind it, feeds are created / started / paused / edited, the service
// end-blocker opens batches, providers answer with MsgRespondService (or let requests expire),
// the consumer (feed creator) may run out of funds.  What the service module really did to the
// oracle (batch started, batch completed with which outputs, context auto-paused) is recorded
// from its events and handed to the Coq model as the step's input.
package main

import (
	"encoding/binary"
	"encoding/hex"
	"encoding/json"
	"fmt"
	"math/big"
	"sort"
	"strings"
	"time"

	sdkmath "cosmossdk.io/math"
	sdk "github.com/cosmos/cosmos-sdk/types"

	oraclekeeper "mods.irisnet.org/modules/oracle/keeper"
	oracletypes "mods.irisnet.org/modules/oracle/types"
	servicekeeper "mods.irisnet.org/modules/service/keeper"
	servicetypes "mods.irisnet.org/modules/service/types"

	"verifharness/lib"
)

// ---------------------------------------------------------------- history vocabulary

// Num is the decimal M * 10^E, rendered in the response as a JSON number (R=0), a numeric
// string (R=1), in scientific notation (R=2) or as `true` (R=3, only for the value 1).
type Num struct {
	M string `json:"m"` // decimal integer (may be huge in the extreme stream)
	E int    `json:"e"`
	R int    `json:"r,omitempty"`
}

// Field of a response body: name index into fieldNames; Bad != 0: not a number for gjson
// (1 null, 2 text, 3 object, 4 false) -> Float() = 0.
type Field struct {
	N   int  `json:"n"`
	V   *Num `json:"v,omitempty"`
	Bad int  `json:"bad,omitempty"`
}

type Step struct {
	K string `json:"k"` // create start pause edit respond block direct fund price
	F int    `json:"f"` // feed index
	S int    `json:"s"` // sender (actor index; -1: not an address)

	// create / edit
	Agg     int    `json:"agg,omitempty"`  // 0 max 1 min 2 avg 3 unknown function
	Path    int    `json:"path,omitempty"` // field index
	LH      uint64 `json:"lh,omitempty"`
	Provs   []int  `json:"provs,omitempty"` // provider indices (0..NProv-1)
	Thr     uint32 `json:"thr,omitempty"`
	Timeout int64  `json:"timeout,omitempty"`
	Freq    uint64 `json:"freq,omitempty"`
	BadSvc  bool   `json:"badsvc,omitempty"` // undefined service name
	Cap     int64  `json:"cap,omitempty"`    // service fee cap (stake); edit: 0 = keep

	// respond
	P      int     `json:"p,omitempty"`    // provider index
	Mode   int     `json:"mode,omitempty"` // 0 ok with output, 1 result code 500 (no output), 2 stale / foreign request id, 3 output without body
	Fields []Field `json:"fields,omitempty"`

	// direct: 0 pause 1 start 2 kill 3 update
	Op int `json:"op,omitempty"`

	// block
	N   int   `json:"n,omitempty"`   // number of blocks (>=1)
	Dt  int64 `json:"dt,omitempty"`  // seconds to the next block (0: 5..7)
	Age int64 `json:"age,omitempty"` // block: the next block comes when feed F's newest value is exactly Age seconds old

	// fund
	Amt int64 `json:"amt,omitempty"`
}

type History struct {
	Fund   []int64 `json:"fund"`   // initial stake of the two creators
	Prices []int64 `json:"prices"` // price per provider (len = number of providers)
	// Names: how the feed indices are spelled. 0: feed0 / feed1; 1: eth / ethusd; 2: ab / a; 3: btc-usd / btc
	// (one name a proper PREFIX of the other: their store keys must still be kept apart)
	Names int `json:"names,omitempty"`
	Steps []Step
}

const (
	nCreators = 2
	maxProv   = 3
	nFeeds    = 2
	denom     = "stake"
)

var fieldNames = []string{"price", "last", "high", "d.x"}

// nameMode is History.Names of the history being executed (one history at a time per process).
var nameMode int

var prefixNames = [][2]string{{"feed0", "feed1"}, {"eth", "ethusd"}, {"ab", "a"}, {"btc-usd", "btc"}}

func feedName(i int) string {
	if i >= 0 && i < 2 && nameMode > 0 && nameMode < len(prefixNames) {
		return prefixNames[nameMode][i]
	}
	return fmt.Sprintf("feed%d", i)
}

// ---------------------------------------------------------------- generator

func genNum(r *lib.Rand, stream string) *Num {
	if stream == "extreme" {
		// exactly representable float64: +-m * 2^k; its exact decimal expansion is the literal
		m := new(big.Int).SetUint64(r.U64() >> uint(11+r.Intn(53)))
		if m.Sign() == 0 {
			m.SetInt64(1)
		}
		if r.Chance(1, 2) {
			m.Neg(m)
		}
		k := int(r.Range(-40, 900))
		if r.Chance(1, 3) {
			k = int(r.Range(-12, 12))
		}
		if r.Chance(1, 8) {
			// tiny inexact literal
			return &Num{M: fmt.Sprint(r.Range(-9, 9)), E: -int(r.Range(20, 300)), R: 2}
		}
		n := &Num{}
		if k >= 0 {
			m.Lsh(m, uint(k))
			n.M, n.E = m.String(), 0
		} else {
			// m / 2^-k = m * 5^-k / 10^-k
			p := new(big.Int).Exp(big.NewInt(5), big.NewInt(int64(-k)), nil)
			m.Mul(m, p)
			n.M, n.E = m.String(), k
		}
		n.R = r.Weighted(3, 1)
		return n
	}
	var m int64
	switch r.Weighted(5, 3, 1, 1) {
	case 0:
		m = r.Range(-999999999, 999999999)
	case 1:
		m = r.Range(-9999, 9999)
	case 2:
		m = 0
	default:
		m = r.Range(-9, 9) * 5 // many rounding ties after division
	}
	e := -int(r.Range(0, 9))
	switch r.Weighted(6, 2, 1) {
	case 1:
		e = -int(r.Range(8, 11)) // below the 8th decimal: rounding matters
	case 2:
		e = int(r.Range(0, 6)) // large: float error may reach the 8th decimal (guard band)
	}
	n := &Num{M: fmt.Sprint(m), E: e, R: r.Weighted(6, 3, 2)}
	if m == 1 && e == 0 && r.Chance(1, 2) {
		n.R = 3
	}
	return n
}

func genFields(r *lib.Rand, stream string, path int, sameSign int) []Field {
	var fs []Field
	// the feed's field is usually present and numeric
	switch r.Weighted(16, 1, 1) {
	case 0:
		v := genNum(r, stream)
		if sameSign != 0 && v.M != "0" {
			neg := strings.HasPrefix(v.M, "-")
			if sameSign < 0 && !neg {
				v.M = "-" + v.M
			}
			if sameSign > 0 && neg {
				v.M = v.M[1:]
			}
		}
		fs = append(fs, Field{N: path, V: v})
	case 1:
		fs = append(fs, Field{N: path, Bad: 1 + r.Intn(4)})
	default: // missing
	}
	// a decoy field
	if r.Chance(1, 2) {
		o := r.Intn(len(fieldNames))
		if o != path && !(o == 3 || path == 3) {
			fs = append(fs, Field{N: o, V: genNum(r, stream)})
		}
	}
	return fs
}

func gen(r *lib.Rand, tier, stream string, idx int) History {
	np := 1 + r.Intn(maxProv)
	h := History{}
	for i := 0; i < np; i++ {
		h.Prices = append(h.Prices, r.Range(1, 40))
	}
	tight := r.Chance(2, 5)
	for c := 0; c < nCreators; c++ {
		if tight {
			h.Fund = append(h.Fund, r.Range(0, 400))
		} else {
			h.Fund = append(h.Fund, 1000000)
		}
	}
	if r.Chance(1, 3) {
		h.Names = 1 + r.Intn(3)
	}
	n := 40 + r.Intn(60)
	if tier == "thorough" {
		n = 25 + r.Intn(120)
	}
	type fstate struct {
		created bool
		creator int
		path    int
		provs   []int
		sign    int
		running bool
	}
	fst := make([]fstate, nFeeds)
	mkCreate := func(f int) Step {
		st := Step{K: "create", F: f, S: r.Intn(nCreators)}
		st.Agg = r.Weighted(4, 3, 4)
		if stream == "extreme" {
			// avg too: the exact-rational model decides inside the guard band only (tolerance()); for the
			// huge magnitudes the band exceeds the rounding unit and the data is not compared
			st.Agg = r.Weighted(3, 3, 2)
		}
		st.Path = r.Intn(len(fieldNames))
		st.LH = uint64(r.Range(1, 4))
		if r.Chance(1, 6) {
			st.LH = uint64(r.Range(5, 100))
		}
		k := 1 + r.Intn(np)
		perm := r.Intn(6)
		for i := 0; i < k; i++ {
			st.Provs = append(st.Provs, (i+perm)%np)
		}
		st.Thr = uint32(1 + r.Intn(k))
		st.Timeout = r.Range(1, 3)
		st.Freq = uint64(st.Timeout + r.Range(0, 2))
		st.Cap = 1000
		if r.Chance(1, 6) {
			st.Cap = r.Range(1, 40)
		}
		switch r.Weighted(20, 1, 1, 1, 1, 1, 1, 1) {
		case 1:
			st.LH = []uint64{0, 101}[r.Intn(2)]
		case 2:
			st.Agg = 3
		case 3:
			st.Thr = uint32(k + 1)
		case 4:
			st.BadSvc = true
		case 5:
			st.Freq = uint64(st.Timeout - 1)
		case 6:
			st.Provs = append(st.Provs, st.Provs[0])
			st.Thr = 1
		case 7:
			st.S = -1
		}
		return st
	}
	other := func(c int) int {
		// mostly a stranger: the other creator or a provider
		return []int{1 - c, nCreators + r.Intn(np)}[r.Intn(2)]
	}
	for len(h.Steps) < n {
		f := 0
		if r.Chance(1, 4) || (h.Names > 0 && r.Chance(1, 3)) {
			// with prefix names both feeds are driven about equally: each must hold values
			f = 1
		}
		fs := &fst[f]
		if !fs.created {
			st := mkCreate(f)
			h.Steps = append(h.Steps, st)
			ok := st.LH >= 1 && st.LH <= 100 && st.Agg < 3 && int(st.Thr) <= len(st.Provs) && !st.BadSvc && st.Freq >= uint64(st.Timeout) && st.S >= 0 && len(st.Provs) == len(uniq(st.Provs))
			if ok {
				fs.created, fs.creator, fs.path, fs.provs = true, st.S, st.Path, st.Provs
				fs.sign = []int{0, 0, -1, 1}[r.Intn(4)]
				fs.running = true
				h.Steps = append(h.Steps, Step{K: "start", F: f, S: st.S})
			}
			continue
		}
		wPause, wStart := 1, 6
		if fs.running {
			wPause, wStart = 3, 1
		}
		wPrice, wJump := 2, 0
		if stream == "price" {
			wPrice, wJump = 8, 5
		}
		switch r.Weighted(8, 24, wPause, wStart, 5, 2, 2, 1, wPrice, wJump) {
		case 0: // respond
			p := fs.provs[r.Intn(len(fs.provs))]
			st := Step{K: "respond", F: f, P: p, Mode: r.Weighted(20, 2, 1, 1)}
			if st.Mode == 0 {
				st.Fields = genFields(r, stream, fs.path, fs.sign)
			}
			h.Steps = append(h.Steps, st)
		case 1:
			h.Steps = append(h.Steps, Step{K: "block", N: 1})
			// a burst of answers to the batches just opened: all, some or none of the providers
			for g := range fst {
				gs := &fst[g]
				if !gs.created || r.Chance(1, 4) {
					continue
				}
				for _, p := range gs.provs {
					if r.Chance(3, 4) {
						st := Step{K: "respond", F: g, P: p, Mode: r.Weighted(24, 2, 0, 1)}
						if st.Mode == 0 {
							st.Fields = genFields(r, stream, gs.path, gs.sign)
						}
						h.Steps = append(h.Steps, st)
					}
				}
			}
		case 2: // pause
			s := fs.creator
			if r.Chance(1, 3) {
				s = other(fs.creator)
			}
			if s == fs.creator {
				fs.running = false
			}
			h.Steps = append(h.Steps, Step{K: "pause", F: f, S: s})
		case 3: // start
			s := fs.creator
			if r.Chance(1, 3) {
				s = other(fs.creator)
			}
			if s == fs.creator {
				fs.running = true
			}
			h.Steps = append(h.Steps, Step{K: "start", F: f, S: s})
		case 4: // edit
			s := fs.creator
			if r.Chance(1, 4) {
				s = other(fs.creator)
			}
			st := Step{K: "edit", F: f, S: s}
			switch r.Weighted(8, 2, 2, 1, 1) {
			case 0:
				st.LH = uint64(r.Range(1, 5))
			case 1:
				st.LH = uint64(r.Range(1, 5))
				st.Thr = uint32(1 + r.Intn(len(fs.provs)))
			case 2:
				st.Timeout = r.Range(1, 3)
				st.Freq = uint64(st.Timeout + r.Range(0, 2))
			case 3:
				st.LH = []uint64{101, 200}[r.Intn(2)]
			case 4:
				st.Thr = uint32(len(fs.provs) + 1)
			}
			if r.Chance(1, 8) {
				st.Cap = r.Range(1, 1000)
			}
			h.Steps = append(h.Steps, st)
		case 5: // direct service message at the feed's context
			s := fs.creator
			if r.Chance(1, 3) {
				s = other(fs.creator)
			}
			h.Steps = append(h.Steps, Step{K: "direct", F: f, S: s, Op: r.Intn(4)})
		case 6:
			h.Steps = append(h.Steps, Step{K: "fund", S: fs.creator, Amt: r.Range(10, 300)})
		case 7: // create again (duplicate name) or on the unknown feed
			h.Steps = append(h.Steps, mkCreate(f))
		case 8: // the oracle price service is asked for the feed (sometimes for an unknown one)
			g := f
			if r.Chance(1, 8) {
				g = 9
			}
			h.Steps = append(h.Steps, Step{K: "price", F: g})
		case 9: // a block after a long pause: values age towards / beyond the 5 minutes of block time
			dt := r.Range(200, 320)
			if r.Chance(1, 2) {
				dt = r.Range(280, 305)
			}
			blk := Step{K: "block", N: 1, Dt: dt}
			if r.Chance(1, 3) {
				// the boundary itself: expired means strictly more than 300 s
				blk = Step{K: "block", F: f, N: 1, Age: []int64{299, 300, 300, 301}[r.Intn(4)]}
			}
			h.Steps = append(h.Steps, blk, Step{K: "price", F: f})
		}
	}
	return h
}

func uniq(xs []int) []int {
	m := map[int]bool{}
	var out []int
	for _, x := range xs {
		if !m[x] {
			m[x] = true
			out = append(out, x)
		}
	}
	return out
}

// ---------------------------------------------------------------- numbers

func (n *Num) rat() *big.Rat {
	m, ok := new(big.Int).SetString(n.M, 10)
	if !ok {
		panic("bad mantissa " + n.M)
	}
	x := new(big.Rat).SetInt(m)
	p := new(big.Int).Exp(big.NewInt(10), big.NewInt(int64(abs(n.E))), nil)
	if n.E >= 0 {
		return x.Mul(x, new(big.Rat).SetInt(p))
	}
	return x.Quo(x, new(big.Rat).SetInt(p))
}

func abs(x int) int {
	if x < 0 {
		return -x
	}
	return x
}

// literal renders the number as JSON text.
func (n *Num) literal() string {
	var s string
	switch {
	case n.R == 3 && n.M == "1" && n.E == 0:
		return "true"
	case n.R == 2:
		s = n.M + "e" + fmt.Sprint(n.E)
	default:
		x := n.rat()
		d := 0
		if n.E < 0 {
			d = -n.E
		}
		s = x.FloatString(d)
	}
	if n.R == 1 {
		return `"` + s + `"`
	}
	return s
}

// exactFloat reports whether the decimal is exactly a float64.
func (n *Num) exactFloat() bool {
	x := n.rat()
	f, exact := x.Float64()
	_ = f
	return exact
}

// zbig prints an integer literal; large ones in hexadecimal (Coq parses long decimal literals slowly).
func zbig(x *big.Int) string {
	if x.BitLen() <= 60 {
		return lib.ZB(x)
	}
	if x.Sign() < 0 {
		return "(-0x" + new(big.Int).Neg(x).Text(16) + ")"
	}
	return "0x" + x.Text(16)
}

func coqDec(n *Num) string {
	m, _ := new(big.Int).SetString(n.M, 10)
	return lib.Pair(zbig(m), lib.Z(int64(n.E)))
}

func coqOutput(fs []Field) string {
	var xs []string
	for _, f := range fs {
		if f.V != nil && f.Bad == 0 {
			xs = append(xs, lib.Pair(lib.Z(int64(f.N)), "Some "+coqDec(f.V)))
		} else {
			xs = append(xs, lib.Pair(lib.Z(int64(f.N)), "None"))
		}
	}
	return lib.L(xs...)
}

func renderBody(fs []Field) string {
	var parts []string
	var nested []string
	for _, f := range fs {
		var v string
		switch {
		case f.Bad == 1:
			v = "null"
		case f.Bad == 2:
			v = `"n/a"`
		case f.Bad == 3:
			v = `{"v":1}`
		case f.Bad == 4:
			v = "false"
		default:
			v = f.V.literal()
		}
		name := fieldNames[f.N]
		if strings.Contains(name, ".") {
			pp := strings.SplitN(name, ".", 2)
			nested = append(nested, fmt.Sprintf(`"%s":{"%s":%s}`, pp[0], pp[1], v))
		} else {
			parts = append(parts, fmt.Sprintf(`"%s":%s`, name, v))
		}
	}
	parts = append(parts, nested...)
	return "{" + strings.Join(parts, ",") + "}"
}

// extracted value of the feed's field, as the exact rational (0 when absent / not numeric)
func extractRat(fs []Field, path int) (*big.Rat, bool) {
	for _, f := range fs {
		if f.N == path {
			if f.V != nil && f.Bad == 0 {
				return f.V.rat(), f.V.exactFloat()
			}
			return new(big.Rat), true
		}
	}
	return new(big.Rat), true
}

// tolerance of the data comparison for one completed batch: 0 exact, 1 = one unit of 10^-8
// (the exact aggregate is within the float64 error of a rounding boundary), -1 = not compared.
func tolerance(agg int, vals []*big.Rat, exact []bool) (tol int, guard bool) {
	if len(vals) == 0 {
		return 0, false
	}
	maxAbs := new(big.Rat)
	for _, v := range vals {
		a := new(big.Rat).Abs(v)
		if a.Cmp(maxAbs) > 0 {
			maxAbs = a
		}
	}
	var x *big.Rat
	band := new(big.Rat)
	n := int64(len(vals))
	switch agg {
	case 0, 1:
		x = vals[0]
		allExact := true
		for i, v := range vals {
			if (agg == 0 && v.Cmp(x) > 0) || (agg == 1 && v.Cmp(x) < 0) {
				x = v
			}
			allExact = allExact && exact[i]
		}
		if !allExact {
			band.Mul(maxAbs, new(big.Rat).SetFrac(big.NewInt(1), new(big.Int).Lsh(big.NewInt(1), 51)))
		}
	default:
		x = new(big.Rat)
		for _, v := range vals {
			x.Add(x, v)
		}
		x.Quo(x, new(big.Rat).SetInt64(n))
		band.Mul(maxAbs, new(big.Rat).SetFrac(big.NewInt(n*n+n+2), new(big.Int).Lsh(big.NewInt(1), 52)))
	}
	if band.Sign() == 0 {
		return 0, false
	}
	// distance of x*10^8 to the nearest half-integer
	y := new(big.Rat).Mul(x, new(big.Rat).SetInt64(100000000))
	fl := new(big.Int).Div(y.Num(), y.Denom()) // floor (Denom > 0)
	half := new(big.Rat).Add(new(big.Rat).SetInt(fl), big.NewRat(1, 2))
	d := new(big.Rat).Sub(y, half)
	d.Abs(d)
	d.Quo(d, new(big.Rat).SetInt64(100000000))
	if d.Cmp(band) <= 0 {
		// a band wider than the rounding unit itself: the float result is not determined
		if band.Cmp(big.NewRat(1, 400000000)) > 0 {
			return -1, true
		}
		return 1, true
	}
	if band.Cmp(big.NewRat(1, 400000000)) > 0 {
		return -1, true
	}
	return 0, false
}

// ---------------------------------------------------------------- execution

type feedRT struct {
	created bool
	ctxHex  string
	ctxIdx  int
	agg     int
	path    int
}

type sentResp struct {
	index  int
	fields []Field
}

type runner struct {
	e       *lib.Env
	ok      oraclekeeper.Keeper
	sk      servicekeeper.Keeper
	h       History
	np      int
	feeds   []feedRT
	ctxs    *lib.Interner
	lastBC  map[string]uint64                // ctx hex -> last batch counter seen started
	sent    map[string]map[uint64][]sentResp // ctx hex -> batch -> accepted responses with output
	lastID  map[string]string                // "ctx|provider" -> last request id seen
	c       lib.Case
	terms   []string
	stats   map[string]int
	done    map[int]int // feed -> number of values produced
	minLH   map[int]uint64
	lastObs map[int]string // feed -> Coq term of its last observation (compression)
}

func provider(i int) int { return nCreators + i }

func (rn *runner) addr(i int) string {
	if i < 0 {
		return "not-an-address"
	}
	return rn.e.Actors[i].String()
}

func coins(n int64) sdk.Coins { return sdk.NewCoins(sdk.NewCoin(denom, sdkmath.NewInt(n))) }

const svcName = "px"

func setup(h History) *runner {
	rn := &runner{h: h, np: len(h.Prices), ctxs: lib.NewInterner(), lastBC: map[string]uint64{},
		sent: map[string]map[uint64][]sentResp{}, lastID: map[string]string{}, stats: map[string]int{},
		done: map[int]int{}, minLH: map[int]uint64{}}
	rn.feeds = make([]feedRT, nFeeds)
	nAct := nCreators + maxProv + 1 // last actor: sink
	rn.e = lib.NewEnv(lib.EnvOpts{NActors: nAct, Balances: coins(1000000000), Consumers: []interface{}{&rn.ok, &rn.sk}})
	e := rn.e
	e.Blockers = []string{"service", "oracle"}
	sink := e.Actors[nAct-1]
	for c := 0; c < nCreators; c++ {
		keep := h.Fund[c]
		amt := int64(1000000000) - keep
		if err := e.App.BankKeeper.SendCoins(e.Ctx, e.Actors[c], sink, coins(amt)); err != nil {
			panic(err)
		}
	}
	must := func(o lib.Outcome, what string) {
		if !o.OK() {
			panic(what + ": " + o.Err)
		}
	}
	must(e.Deliver(&servicetypes.MsgDefineService{Name: svcName, Description: "d", Author: rn.addr(provider(0)),
		Schemas: `{"input":{"type":"object"},"output":{"type":"object"}}`}), "define")
	for i := 0; i < rn.np; i++ {
		p := h.Prices[i]
		must(e.Deliver(&servicetypes.MsgBindService{ServiceName: svcName, Provider: rn.addr(provider(i)),
			Deposit: coins(p*1000*20 + 100000), Pricing: fmt.Sprintf(`{"price":"%d%s"}`, p, denom), QoS: 1,
			Options: "{}", Owner: rn.addr(provider(i))}), "bind")
	}
	return rn
}

func (rn *runner) now() int64 { return rn.e.Time.Unix() }

// deliver = lib.Env.Deliver (ValidateBasic, routed handler on a cache context written back only
// on success, panics recovered), but returning the events of the message: baseapp's router
// gives every handler a fresh event manager and returns its events in the result only.
func (rn *runner) deliver(msg sdk.Msg) (out lib.Outcome) {
	e := rn.e
	cacheCtx, write := e.Ctx.CacheContext()
	cacheCtx = cacheCtx.WithTxBytes(e.NextTxBytes()).WithEventManager(sdk.NewEventManager())
	defer func() {
		if r := recover(); r != nil {
			out = lib.Outcome{Kind: "abort", Err: fmt.Sprint(r)}
		}
	}()
	if v, ok := msg.(interface{ ValidateBasic() error }); ok {
		if err := v.ValidateBasic(); err != nil {
			return lib.Outcome{Kind: "rej", Err: "validate-basic: " + err.Error()}
		}
	}
	h := e.App.MsgServiceRouter().Handler(msg)
	if h == nil {
		return lib.Outcome{Kind: "rej", Err: "no handler"}
	}
	res, err := h(cacheCtx, msg)
	if err != nil {
		return lib.Outcome{Kind: "rej", Err: err.Error()}
	}
	var evs sdk.Events
	for _, ev := range res.Events {
		evs = append(evs, sdk.Event(ev))
	}
	write()
	return lib.Outcome{Kind: "ok", Event: evs}
}

type batchState struct {
	BatchCounter           uint64 `json:"batch_counter"`
	BatchResponseThreshold uint32 `json:"batch_response_threshold"`
	BatchRequestCount      uint32 `json:"batch_request_count"`
	BatchResponseCount     uint32 `json:"batch_response_count"`
}

func (rn *runner) ctxState(hexid string) (servicetypes.RequestContext, bool) {
	id, _ := hex.DecodeString(hexid)
	return rn.sk.GetRequestContext(rn.e.Ctx, id)
}

// sevs turns the service events of one transaction / end-block into model events.
func (rn *runner) sevs(evs sdk.Events, before map[string]servicetypes.RequestContextState) []string {
	var out []string
	for _, ev := range evs {
		if ev.Type != servicetypes.EventTypeCompleteBatch && ev.Type != servicetypes.EventTypeNewBatch {
			continue
		}
		var ctxHex, stJSON string
		for _, a := range ev.Attributes {
			switch a.Key {
			case servicetypes.AttributeKeyRequestContextID:
				ctxHex = strings.ToUpper(a.Value)
			case servicetypes.AttributeKeyRequestContextState:
				stJSON = a.Value
			}
		}
		var feed *feedRT
		fi := -1
		for i := range rn.feeds {
			if rn.feeds[i].created && rn.feeds[i].ctxHex == ctxHex {
				feed, fi = &rn.feeds[i], i
			}
		}
		if feed == nil {
			continue
		}
		var bs batchState
		if err := json.Unmarshal([]byte(stJSON), &bs); err != nil {
			rn.c.Notes = append(rn.c.Notes, "cannot parse batch state "+stJSON)
			continue
		}
		cz := lib.Z(int64(feed.ctxIdx))
		if ev.Type == servicetypes.EventTypeNewBatch {
			if bs.BatchCounter == rn.lastBC[ctxHex]+1 {
				rn.lastBC[ctxHex] = bs.BatchCounter
				out = append(out, lib.App("SNewBatch", cz))
				lib.Stat(rn.stats, "svc:new-batch")
				if bs.BatchRequestCount == 0 {
					lib.Stat(rn.stats, "svc:new-batch-skipped")
				}
			} else if x, ok := rn.ctxState(ctxHex); ok && before[ctxHex] == servicetypes.RUNNING && x.State == servicetypes.PAUSED {
				out = append(out, lib.App("SAutoPause", cz))
				lib.Stat(rn.stats, "svc:auto-pause")
			}
			continue
		}
		// complete batch: the outputs are the accepted responses with output of this batch, in request order
		rs := rn.sent[ctxHex][bs.BatchCounter]
		sort.Slice(rs, func(i, j int) bool { return rs[i].index < rs[j].index })
		var outs []string
		var vals []*big.Rat
		var exact []bool
		for _, r := range rs {
			outs = append(outs, coqOutput(r.fields))
			v, ex := extractRat(r.fields, feed.path)
			vals = append(vals, v)
			exact = append(exact, ex)
		}
		tol, guard := tolerance(feed.agg, vals, exact)
		met := len(rs) > 0 && len(rs) >= int(bs.BatchResponseThreshold)
		if met {
			lib.Stat(rn.stats, "svc:batch-done-value")
			rn.done[fi]++
			if guard {
				lib.Stat(rn.stats, fmt.Sprintf("guard-band:tol%d", tol))
			}
			neg := 0
			for _, v := range vals {
				if v.Sign() < 0 {
					neg++
				}
			}
			if neg == len(vals) {
				lib.Stat(rn.stats, "values:all-negative")
			} else if neg > 0 {
				lib.Stat(rn.stats, "values:mixed-sign")
			}
		} else {
			lib.Stat(rn.stats, "svc:batch-done-below-threshold")
		}
		out = append(out, lib.App("SDone", cz, lib.ZU(bs.BatchCounter), lib.ZU(uint64(bs.BatchResponseThreshold)), lib.L(outs...), lib.Z(int64(tol))))
	}
	return out
}

func (rn *runner) statesBefore() map[string]servicetypes.RequestContextState {
	m := map[string]servicetypes.RequestContextState{}
	for _, f := range rn.feeds {
		if f.created {
			if x, ok := rn.ctxState(f.ctxHex); ok {
				m[f.ctxHex] = x.State
			}
		}
	}
	return m
}

// findRequest returns the active request of the feed's current batch addressed to the provider.
func (rn *runner) findRequest(f *feedRT, prov sdk.AccAddress) (string, int, uint64, bool) {
	id, _ := hex.DecodeString(f.ctxHex)
	x, ok := rn.sk.GetRequestContext(rn.e.Ctx, id)
	if !ok {
		return "", 0, 0, false
	}
	it := rn.sk.RequestsIteratorByReqCtx(rn.e.Ctx, id, x.BatchCounter)
	defer it.Close()
	for ; it.Valid(); it.Next() {
		rid := it.Key()[1:]
		req, found := rn.sk.GetCompactRequest(rn.e.Ctx, rid)
		if !found || req.Provider != prov.String() {
			continue
		}
		if !rn.sk.IsRequestActive(rn.e.Ctx, rid) {
			continue
		}
		idx := int(int16(binary.BigEndian.Uint16(rid[len(rid)-2:])))
		return strings.ToUpper(hex.EncodeToString(rid)), idx, x.BatchCounter, true
	}
	return "", 0, 0, false
}

func (rn *runner) provAddrs(ps []int) []string {
	var out []string
	for _, p := range ps {
		out = append(out, rn.addr(provider(p)))
	}
	return out
}

func (rn *runner) emit(opTerm string, code int) {
	rn.terms = append(rn.terms, lib.Pair(lib.Pair(lib.Z(rn.now()), opTerm), rn.observe(code)))
}

func (rn *runner) exec() lib.Case {
	e := rn.e
	rn.c = lib.Case{Stats: rn.stats}
	step := func(s string) { rn.c.Steps = append(rn.c.Steps, s) }
	for _, st := range rn.h.Steps {
		f := &rn.feeds[0]
		if st.F >= 0 && st.F < nFeeds {
			f = &rn.feeds[st.F]
		}
		switch st.K {
		case "create":
			svc := svcName
			if st.BadSvc {
				svc = "nosuchsvc"
			}
			aggName := []string{"max", "min", "avg", "median"}[st.Agg]
			msg := &oracletypes.MsgCreateFeed{FeedName: feedName(st.F), LatestHistory: st.LH, Description: "d",
				Creator: rn.addr(st.S), ServiceName: svc, Providers: rn.provAddrs(st.Provs),
				Input: `{"header":{},"body":{}}`, Timeout: st.Timeout, ServiceFeeCap: coins(st.Cap),
				RepeatedFrequency: st.Freq, AggregateFunc: aggName, ValueJsonPath: fieldNames[st.Path],
				ResponseThreshold: st.Thr}
			o := e.Deliver(msg)
			lib.Stat(rn.stats, "op:create")
			lib.Stat(rn.stats, "res:"+o.Kind)
			if o.OK() {
				fd, found := rn.ok.GetFeed(e.Ctx, feedName(st.F))
				if !found {
					rn.c.Notes = append(rn.c.Notes, "feed not found after successful create")
				} else {
					f.created, f.ctxHex, f.agg, f.path = true, strings.ToUpper(fd.RequestContextID), st.Agg, st.Path
					f.ctxIdx = rn.ctxs.Id(f.ctxHex)
					rn.minLH[st.F] = st.LH
				}
			}
			dup := len(uniq(st.Provs)) != len(st.Provs)
			term := lib.App("OCreate", lib.App("mkCreate", lib.Z(int64(st.F)), lib.Z(int64(st.S)), lib.Z(int64(st.Agg)),
				lib.Z(int64(st.Path)), lib.ZU(st.LH), lib.B(!st.BadSvc), lib.Z(int64(len(st.Provs))), lib.B(dup),
				lib.ZU(uint64(st.Thr)), lib.Z(st.Timeout), lib.ZU(st.Freq)))
			rn.emit(term, o.Code())
			step(fmt.Sprintf("create feed%d by %d agg=%s path=%s lh=%d provs=%v thr=%d timeout=%d freq=%d cap=%d -> %s %s", st.F, st.S, aggName, fieldNames[st.Path], st.LH, st.Provs, st.Thr, st.Timeout, st.Freq, st.Cap, o.Kind, short(o.Err)))
		case "start", "pause":
			var o lib.Outcome
			if st.K == "start" {
				o = e.Deliver(&oracletypes.MsgStartFeed{FeedName: feedName(st.F), Creator: rn.addr(st.S)})
			} else {
				o = e.Deliver(&oracletypes.MsgPauseFeed{FeedName: feedName(st.F), Creator: rn.addr(st.S)})
			}
			lib.Stat(rn.stats, "op:"+st.K)
			lib.Stat(rn.stats, "res:"+o.Kind)
			ctor := "OStart"
			if st.K == "pause" {
				ctor = "OPause"
			}
			rn.emit(lib.App(ctor, lib.Z(int64(st.F)), lib.Z(int64(st.S))), o.Code())
			step(fmt.Sprintf("%s feed%d by %d -> %s %s", st.K, st.F, st.S, o.Kind, short(o.Err)))
		case "edit":
			msg := &oracletypes.MsgEditFeed{FeedName: feedName(st.F), Description: oracletypes.DoNotModify, LatestHistory: st.LH,
				Providers: rn.provAddrs(st.Provs), Timeout: st.Timeout, RepeatedFrequency: st.Freq,
				ResponseThreshold: st.Thr, Creator: rn.addr(st.S)}
			if st.Cap > 0 {
				msg.ServiceFeeCap = coins(st.Cap)
			}
			o := e.Deliver(msg)
			lib.Stat(rn.stats, "op:edit")
			lib.Stat(rn.stats, "res:"+o.Kind)
			if o.OK() && st.LH > 0 {
				if st.LH < rn.minLH[st.F] {
					lib.Stat(rn.stats, "edit:shrink")
				} else if st.LH > rn.minLH[st.F] {
					lib.Stat(rn.stats, "edit:grow")
				}
				rn.minLH[st.F] = st.LH
			}
			dup := len(uniq(st.Provs)) != len(st.Provs)
			term := lib.App("OEdit", lib.App("mkEdit", lib.Z(int64(st.F)), lib.Z(int64(st.S)), lib.ZU(st.LH),
				lib.Z(int64(len(st.Provs))), lib.B(dup), lib.ZU(uint64(st.Thr)), lib.Z(st.Timeout), lib.ZU(st.Freq)))
			rn.emit(term, o.Code())
			step(fmt.Sprintf("edit feed%d by %d lh=%d thr=%d timeout=%d freq=%d cap=%d -> %s %s", st.F, st.S, st.LH, st.Thr, st.Timeout, st.Freq, st.Cap, o.Kind, short(o.Err)))
		case "direct":
			if !f.created {
				continue
			}
			var msg sdk.Msg
			switch st.Op {
			case 0:
				msg = &servicetypes.MsgPauseRequestContext{RequestContextId: f.ctxHex, Consumer: rn.addr(st.S)}
			case 1:
				msg = &servicetypes.MsgStartRequestContext{RequestContextId: f.ctxHex, Consumer: rn.addr(st.S)}
			case 2:
				msg = &servicetypes.MsgKillRequestContext{RequestContextId: f.ctxHex, Consumer: rn.addr(st.S)}
			default:
				msg = &servicetypes.MsgUpdateRequestContext{RequestContextId: f.ctxHex, Consumer: rn.addr(st.S), Timeout: 2, RepeatedFrequency: 5, RepeatedTotal: -1}
			}
			o := e.Deliver(msg)
			lib.Stat(rn.stats, "op:direct")
			lib.Stat(rn.stats, "res-direct:"+o.Kind)
			rn.emit(lib.App("ODirect", lib.Z(int64(st.F)), lib.Z(int64(st.S)), lib.Z(int64(st.Op))), o.Code())
			step(fmt.Sprintf("direct service msg %d at feed%d by %d -> %s %s", st.Op, st.F, st.S, o.Kind, short(o.Err)))
		case "fund":
			sink := e.Actors[len(e.Actors)-1]
			if st.S >= 0 && st.S < nCreators {
				_ = e.App.BankKeeper.SendCoins(e.Ctx, sink, e.Actors[st.S], coins(st.Amt))
			}
			lib.Stat(rn.stats, "op:fund")
			step(fmt.Sprintf("fund creator %d with %d", st.S, st.Amt))
		case "respond":
			if !f.created || st.P >= rn.np {
				continue
			}
			prov := e.Actors[provider(st.P)]
			rid, idx, bc, found := rn.findRequest(f, prov)
			if !found && st.Mode != 2 {
				// the provider has nothing to answer: let another provider with an open request answer
				for q := 0; q < rn.np && !found; q++ {
					if rid, idx, bc, found = rn.findRequest(f, e.Actors[provider(q)]); found {
						st.P = q
						prov = e.Actors[provider(q)]
					}
				}
				if !found && st.Mode != 0 {
					continue
				}
				if !found && len(rn.c.Steps)%4 != 0 {
					continue // most answers without an open request are dropped, some are sent late
				}
			}
			key := fmt.Sprintf("%s|%d", f.ctxHex, st.P)
			if st.Mode == 2 || !found {
				// stale request id (already answered / expired) if we know one
				old, ok := rn.lastID[key]
				if !ok {
					continue
				}
				if found && st.Mode == 2 && old == rid {
					// an active request answered by the wrong provider instead
					prov = e.Actors[provider((st.P+1)%maxProv)]
				}
				rid, found = old, false
			} else {
				rn.lastID[key] = rid
			}
			result := `{"code":200,"message":""}`
			output := ""
			switch st.Mode {
			case 1:
				result = `{"code":500,"message":"oops"}`
			case 3:
				output = `{"header":{}}`
			default:
				output = `{"header":{},"body":` + renderBody(st.Fields) + `}`
			}
			before := rn.statesBefore()
			o := rn.deliver(&servicetypes.MsgRespondService{RequestId: rid, Provider: prov.String(), Result: result, Output: output})
			lib.Stat(rn.stats, "op:respond")
			lib.Stat(rn.stats, "res:"+o.Kind)
			var evs []string
			if o.OK() {
				if output != "" {
					if rn.sent[f.ctxHex] == nil {
						rn.sent[f.ctxHex] = map[uint64][]sentResp{}
					}
					fs := st.Fields
					if st.Mode == 3 {
						fs = nil
					}
					rn.sent[f.ctxHex][bc] = append(rn.sent[f.ctxHex][bc], sentResp{index: idx, fields: fs})
				}
				evs = rn.sevs(o.Event, before)
			}
			rn.emit(lib.App("OSvc", lib.L(evs...)), o.Code())
			step(fmt.Sprintf("respond feed%d provider %d mode %d %s -> %s %s [%s]", st.F, st.P, st.Mode, output, o.Kind, short(o.Err), strings.Join(evs, "; ")))
		case "price":
			// keeper.ModuleServiceRequest, the function the service module calls for the oracle price service
			input := fmt.Sprintf(`{"header":{},"body":{"pair":"%s"}}`, feedName(st.F))
			var result, output string
			o := e.Try(func(ctx sdk.Context) error {
				result, output = rn.ok.ModuleServiceRequest(ctx, input)
				return nil
			})
			code, data := int64(-1), "0"
			var res struct {
				Code string `json:"code"`
			}
			if err := json.Unmarshal([]byte(result), &res); err == nil {
				fmt.Sscan(res.Code, &code)
			} else {
				rn.c.Notes = append(rn.c.Notes, "price service result is not JSON: "+result)
			}
			if code == 200 {
				var out struct {
					Body struct {
						Rate string `json:"rate"`
					} `json:"body"`
				}
				if err := json.Unmarshal([]byte(output), &out); err != nil {
					rn.c.Notes = append(rn.c.Notes, "price service output is not JSON: "+output)
				} else {
					data = dataZ(out.Body.Rate, &rn.c)
				}
			} else if output != "" {
				rn.c.Notes = append(rn.c.Notes, "price service returned an output with code "+res.Code)
			}
			lib.Stat(rn.stats, "op:price")
			lib.Stat(rn.stats, fmt.Sprintf("price:%d", code))
			rn.emit(lib.App("OPrice", lib.Z(int64(st.F)), lib.Z(code), data), o.Code())
			step(fmt.Sprintf("price service asked for feed%d -> %s %s %s", st.F, o.Kind, result, output))
		case "block":
			n := st.N
			if n < 1 {
				n = 1
			}
			for i := 0; i < n; i++ {
				before := rn.statesBefore()
				o := e.EndBlock()
				lib.Stat(rn.stats, "op:block")
				if !o.OK() {
					lib.Stat(rn.stats, "res:block-"+o.Kind)
				}
				var evs []string
				if o.OK() {
					evs = rn.sevs(o.Event, before)
				}
				rn.emit(lib.App("OSvc", lib.L(evs...)), o.Code())
				step(fmt.Sprintf("end block %d -> %s %s [%s]", e.Height, o.Kind, short(o.Err), strings.Join(evs, "; ")))
				dt := time.Duration(5+e.Height%3) * time.Second
				if st.Dt > 0 {
					dt = time.Duration(st.Dt) * time.Second
				}
				if st.Age > 0 {
					if resp, err := rn.ok.FeedValue(e.Ctx, &oracletypes.QueryFeedValueRequest{FeedName: feedName(st.F)}); err == nil && len(resp.FeedValues) > 0 {
						if d := resp.FeedValues[0].Timestamp.Unix() + st.Age - e.Time.Unix(); d > 0 {
							dt = time.Duration(d) * time.Second
							lib.Stat(rn.stats, fmt.Sprintf("price:age-%d", st.Age))
						}
					}
				}
				e.BeginBlock(dt)
			}
		}
	}
	rn.c.Coq = lib.L(rn.terms...)
	// non-trivial (DESIGN appendix A): >= 2 batches completed with a value on one feed and its
	// latest-history smaller than the number of values produced
	for fi, n := range rn.done {
		if n >= 2 && uint64(n) > rn.minLH[fi] {
			rn.c.NonTrivial = true
		}
	}
	if rn.h.Names > 0 {
		lib.Stat(rn.stats, "names:prefix-pair")
		if rn.done[0] > 0 && rn.done[1] > 0 {
			lib.Stat(rn.stats, "names:prefix-pair-both-valued")
		}
	}
	return rn.c
}

func short(s string) string {
	if len(s) > 70 {
		return s[:70]
	}
	return s
}

// observe reads, through the oracle query server and the service keeper, everything C17 talks about.
func (rn *runner) observe(code int) string {
	e := rn.e
	inState := func(state string) map[string]bool {
		m := map[string]bool{}
		resp, err := rn.ok.Feeds(e.Ctx, &oracletypes.QueryFeedsRequest{State: state})
		if err != nil {
			rn.c.Notes = append(rn.c.Notes, "Feeds query failed: "+err.Error())
			return m
		}
		for _, fc := range resp.Feeds {
			m[fc.Feed.FeedName] = true
		}
		return m
	}
	running, paused := inState("running"), inState("paused")
	var fo []string
	for i := 0; i < nFeeds; i++ {
		name := feedName(i)
		feedT, ctxT := "None", "None"
		if resp, err := rn.ok.Feed(e.Ctx, &oracletypes.QueryFeedRequest{FeedName: name}); err == nil && resp.Feed.Feed != nil {
			fd := resp.Feed.Feed
			agg := map[string]int{"max": 0, "min": 1, "avg": 2}[fd.AggregateFunc]
			path := -1
			for k, n := range fieldNames {
				if n == fd.ValueJsonPath {
					path = k
				}
			}
			creator := -2
			for k, a := range e.Actors {
				if a.String() == fd.Creator {
					creator = k
				}
			}
			cidx := rn.ctxs.Id(strings.ToUpper(fd.RequestContextID))
			feedT = "(Some " + lib.Pair(lib.Z(int64(agg)), lib.Z(int64(path)), lib.ZU(fd.LatestHistory), lib.Z(int64(cidx)), lib.Z(int64(creator))) + ")"
			if x, ok := rn.ctxState(strings.ToUpper(fd.RequestContextID)); ok {
				ctxT = "(Some " + lib.Pair(lib.Z(int64(x.State)), lib.ZU(x.BatchCounter), lib.ZU(uint64(x.ResponseThreshold)), lib.ZU(uint64(x.BatchResponseThreshold)), lib.B(x.BatchState == servicetypes.BATCHRUNNING)) + ")"
				if x.State != resp.Feed.State {
					rn.c.Notes = append(rn.c.Notes, "feed query state differs from the context state")
				}
			}
		}
		var vs []string
		if resp, err := rn.ok.FeedValue(e.Ctx, &oracletypes.QueryFeedValueRequest{FeedName: name}); err == nil {
			for _, v := range resp.FeedValues {
				vs = append(vs, lib.Pair(dataZ(v.Data, &rn.c), lib.Z(v.Timestamp.Unix())))
			}
		}
		// compressed: a feed whose observation did not change since the previous step is written None
		// (Check.expand_from restores it)
		fobsT := lib.App("mkFobs", feedT, lib.L(vs...), lib.B(running[name]), lib.B(paused[name]), ctxT)
		if rn.lastObs == nil {
			rn.lastObs = map[int]string{}
		}
		prev, seen := rn.lastObs[i]
		if !seen {
			prev = lib.App("mkFobs", "None", lib.L(), lib.B(false), lib.B(false), "None")
		}
		rn.lastObs[i] = fobsT
		if fobsT == prev {
			fo = append(fo, lib.Pair(lib.Z(int64(i)), "None"))
		} else {
			fo = append(fo, lib.Pair(lib.Z(int64(i)), "(Some "+fobsT+")"))
		}
	}
	return lib.App("mkCObs", lib.Z(int64(code)), lib.L(fo...))
}

// dataZ parses the stored string "[-]ddd.dddddddd" as the integer data * 10^8.
func dataZ(s string, c *lib.Case) string {
	neg := strings.HasPrefix(s, "-")
	t := strings.TrimPrefix(s, "-")
	parts := strings.SplitN(t, ".", 2)
	if len(parts) != 2 || len(parts[1]) != 8 {
		c.Notes = append(c.Notes, "feed value is not a number with 8 decimals: "+s)
		return "0"
	}
	n, ok := new(big.Int).SetString(parts[0]+parts[1], 10)
	if !ok {
		c.Notes = append(c.Notes, "feed value is not a number with 8 decimals: "+s)
		return "0"
	}
	if neg {
		n.Neg(n)
	}
	return zbig(n)
}

func exec(h History) lib.Case {
	nameMode = h.Names
	if len(h.Prices) == 0 || len(h.Prices) > maxProv || len(h.Fund) != nCreators {
		return lib.Case{Coq: "[]", Stats: map[string]int{"bad-history": 1}}
	}
	return setup(h).exec()
}

func main() {
	lib.Main(lib.Driver[History]{Gen: gen, Exec: exec})
}
