// c19: record module driver (property C19).
package main

import (
	"crypto/sha256"
	"encoding/binary"
	"encoding/hex"
	"fmt"
	"strings"
	"time"

	sdk "github.com/cosmos/cosmos-sdk/types"

	recordmodule "mods.irisnet.org/modules/record"
	recordkeeper "mods.irisnet.org/modules/record/keeper"
	recordtypes "mods.irisnet.org/modules/record/types"

	"verifharness/lib"
)

// history vocabulary = the model's vocabulary
type Content struct{ D, A, U, M int } // interned strings, 0 = empty
type Msg struct {
	Creator  int // -1: not a bech32 address
	Contents []Content
}
type Step struct {
	Block bool  `json:"block,omitempty"`
	Msgs  []Msg `json:"msgs,omitempty"`
	// NoTx: the messages are executed outside a transaction (as a passed governance proposal
	// does): ctx.TxBytes() is empty, so all such creations see the same tx hash
	NoTx bool `json:"notx,omitempty"`
	// Gen: the records are loaded through the module's InitGenesis (a chain started from a genesis
	// that already holds records): each carries the hash of the empty tx bytes, and InitGenesis
	// stores them with AddRecord, i.e. exactly like a transaction-less creation of the same records
	Gen bool `json:"gen,omitempty"`
}
type History struct {
	Counter0 uint32 // initial value of the intra-tx counter (near 2^32 in the wrap stream)
	Steps    []Step
}

var strs = []string{"", "sha256:ab12", "SHA256", "ipfs://x", "meta-1", "d2", "md5", "http://y", "other"}

func str(i int) string {
	if i < len(strs) {
		return strs[i]
	}
	return fmt.Sprintf("s%d", i)
}

func gen(r *lib.Rand, tier, stream string, i int) History {
	n := 4 + r.Intn(14)
	if tier == "thorough" {
		n = 4 + r.Intn(40)
	}
	// a small pool of contents so that byte-identical records are frequent
	pool := [][]Content{
		{{1, 2, 3, 4}},
		{{1, 2, 0, 0}},
		{{5, 6, 7, 8}, {1, 2, 3, 4}},
		{{1, 2, 3, 4}, {1, 2, 3, 4}},
	}
	var h History
	if stream == "bulk" {
		// one transaction carrying several hundred byte-identical records (ids then differ only in
		// the counter, over more than one byte of it), then ordinary traffic
		nb := 257 + r.Intn(80)
		if tier == "thorough" {
			nb = 257 + r.Intn(400)
		}
		var ms []Msg
		who := r.Intn(3)
		for j := 0; j < nb; j++ {
			ms = append(ms, Msg{Creator: who, Contents: pool[0]})
		}
		h.Steps = append(h.Steps, Step{Msgs: ms, NoTx: r.Chance(1, 2)}, Step{Block: true},
			Step{Msgs: []Msg{{Creator: who, Contents: pool[0]}}}, Step{Block: true})
		return h
	}
	if stream == "genesis" {
		// the chain starts from a genesis holding 1-6 records; later creations outside a transaction
		// (same tx hash as the genesis records) repeat the same contents at the same ordinal positions
		ng := 1 + r.Intn(6)
		who := r.Intn(3)
		var gs []Msg
		for j := 0; j < ng; j++ {
			gs = append(gs, Msg{Creator: who, Contents: pool[r.Intn(2)]})
		}
		h.Steps = append(h.Steps, Step{Msgs: gs, Gen: true}, Step{Block: true})
		for k := 0; k < 2+r.Intn(4); k++ {
			var ms []Msg
			for j := 0; j < 1+r.Intn(ng+1); j++ {
				ms = append(ms, Msg{Creator: who, Contents: pool[r.Intn(2)]})
			}
			if r.Chance(1, 2) {
				ms = append([]Msg(nil), gs[:1+r.Intn(ng)]...) // the genesis records again, in order
			}
			h.Steps = append(h.Steps, Step{Msgs: ms, NoTx: r.Chance(3, 4)})
			if r.Chance(1, 2) {
				h.Steps = append(h.Steps, Step{Block: true})
			}
		}
		return h
	}
	if stream == "wrap" {
		h.Counter0 = uint32(4294967296 - int64(1+r.Intn(6)))
	}
	for k := 0; k < n; k++ {
		switch r.Weighted(6, 2) {
		case 1:
			h.Steps = append(h.Steps, Step{Block: true})
		default:
			nm := 1 + r.Intn(4)
			var ms []Msg
			for j := 0; j < nm; j++ {
				m := Msg{Creator: r.Intn(3)}
				switch r.Weighted(40, 1, 1, 1, 1) {
				case 0:
					m.Contents = pool[r.Intn(len(pool))]
				case 1:
					m.Contents = nil // invalid: contents missing
				case 2:
					m.Contents = []Content{{0, 2, 3, 4}} // invalid: digest missing
				case 3:
					m.Contents = []Content{{1, 0, 3, 4}} // invalid: algo missing
				case 4:
					m.Creator = -1
					m.Contents = pool[0]
				}
				ms = append(ms, m)
			}
			h.Steps = append(h.Steps, Step{Msgs: ms, NoTx: stream == "notx" && r.Chance(2, 3)})
		}
	}
	return h
}

func coqContent(c Content) string {
	return lib.Pair(lib.Z(int64(c.D)), lib.Z(int64(c.A)), lib.Z(int64(c.U)), lib.Z(int64(c.M)))
}
func coqContents(cs []Content) string {
	var xs []string
	for _, c := range cs {
		xs = append(xs, coqContent(c))
	}
	return lib.L(xs...)
}

type created struct {
	id  string // hex
	iid int
}

func exec(h History) lib.Case {
	var k recordkeeper.Keeper
	e := lib.NewEnv(lib.EnvOpts{NActors: 3, Consumers: []interface{}{&k}})
	c := lib.Case{Stats: map[string]int{}}
	if h.Counter0 != 0 {
		k.SetIntraTxCounter(e.Ctx, h.Counter0)
	}
	ids := lib.NewInterner()
	txs := lib.NewInterner()
	var all []created
	var steps []string
	seenRec := map[string]int{}
	dupContent := false
	for _, st := range h.Steps {
		var stepTerm string
		code := 0
		var retIDs []string
		if st.Block {
			e.EndBlock()
			e.BeginBlock(5 * time.Second)
			stepTerm = "Block"
			lib.Stat(c.Stats, "op:block")
			c.Steps = append(c.Steps, "block")
		} else {
			txBytes := e.NextTxBytes()
			if st.NoTx || st.Gen {
				txBytes = nil
			}
			txh := sha256.Sum256(txBytes)
			txi := txs.Id(string(txh[:]))
			var msgs []sdk.Msg
			var mterms []string
			for _, m := range st.Msgs {
				creator := "not-an-address"
				if m.Creator >= 0 {
					creator = e.Actors[m.Creator].String()
				}
				var cs []recordtypes.Content
				for _, x := range m.Contents {
					cs = append(cs, recordtypes.Content{Digest: str(x.D), DigestAlgo: str(x.A), URI: str(x.U), Meta: str(x.M)})
				}
				msgs = append(msgs, &recordtypes.MsgCreateRecord{Contents: cs, Creator: creator})
				mterms = append(mterms, lib.Pair(lib.Z(int64(m.Creator)), coqContents(m.Contents)))
			}
			ctrBefore := k.GetIntraTxCounter(e.Ctx)
			var outs []lib.Outcome
			var ok bool
			if st.Gen {
				outs, ok = genesisLoad(e, k, txh[:], msgs)
			} else {
				outs, ok = e.DeliverTx(txBytes, msgs...)
			}
			lib.Stat(c.Stats, fmt.Sprintf("op:tx%d", len(msgs)))
			if ok {
				for j, o := range outs {
					resp := o.Resp.(*recordtypes.MsgCreateRecordResponse)
					retIDs = append(retIDs, lib.Z(int64(ids.Id(resp.Id))))
					all = append(all, created{id: resp.Id, iid: ids.Id(resp.Id)})
					// the real id must be the SHA-256 of (record bytes ++ be32 counter): this is the
					// pre-image the model uses as the id
					m := st.Msgs[j]
					rec := msgs[j].(*recordtypes.MsgCreateRecord)
					r := recordtypes.NewRecord(txh[:], rec.Contents, e.Actors[m.Creator])
					bz := e.App.AppCodec().MustMarshal(&r)
					pre := make([]byte, len(bz)+4)
					copy(pre, bz)
					binary.BigEndian.PutUint32(pre[len(bz):], ctrBefore+uint32(j))
					want := sha256.Sum256(pre)
					if hex.EncodeToString(want[:]) != strings.ToLower(resp.Id) {
						c.Notes = append(c.Notes, fmt.Sprintf("id %s is not sha256(record||counter %d)", resp.Id, ctrBefore+uint32(j)))
					}
					key := fmt.Sprintf("%d|%v", m.Creator, m.Contents)
					seenRec[key]++
					if seenRec[key] > 1 {
						dupContent = true
					}
				}
				lib.Stat(c.Stats, "res:ok")
			} else {
				last := outs[len(outs)-1]
				code = last.Code()
				lib.Stat(c.Stats, "res:"+last.Kind)
			}
			stepTerm = lib.App("Tx", lib.Z(int64(txi)), lib.L(mterms...))
			c.Steps = append(c.Steps, fmt.Sprintf("tx %d msgs -> code %d ids %v", len(msgs), code, retIDs))
		}
		// read back every id ever returned through the module's query server
		var reads []string
		for _, cr := range all {
			reads = append(reads, lib.Pair(lib.Z(int64(cr.iid)), readTerm(e, k, cr.id, txs)))
		}
		obs := lib.App("mkObs", lib.Z(int64(code)), lib.L(retIDs...), lib.ZU(uint64(k.GetIntraTxCounter(e.Ctx))), lib.L(reads...))
		steps = append(steps, lib.Pair(stepTerm, obs))
	}
	c.Coq = lib.Pair(lib.ZU(uint64(h.Counter0)), lib.L(steps...))
	c.NonTrivial = dupContent
	return c
}

var strIdx = func() map[string]int {
	m := map[string]int{}
	for i, s := range strs {
		m[s] = i
	}
	return m
}()

func readTerm(e *lib.Env, k recordkeeper.Keeper, idHex string, txs *lib.Interner) string {
	resp, err := k.Record(e.Ctx, &recordtypes.QueryRecordRequest{RecordId: idHex})
	if err != nil || resp.Record == nil || (resp.Record.TxHash == "" && len(resp.Record.Contents) == 0 && resp.Record.Creator == "") {
		return "None"
	}
	r := resp.Record
	txb, _ := hex.DecodeString(r.TxHash)
	var cs []Content
	for _, x := range r.Contents {
		cs = append(cs, Content{sidx(x.Digest), sidx(x.DigestAlgo), sidx(x.URI), sidx(x.Meta)})
	}
	creator := -2
	for i, a := range e.Actors {
		if a.String() == r.Creator {
			creator = i
		}
	}
	return lib.App("Some", lib.Pair(lib.Z(int64(txs.Id(string(txb)))), coqContents(cs), lib.Z(int64(creator))))
}

func sidx(s string) int {
	if i, ok := strIdx[s]; ok {
		return i
	}
	return 999
}

// genesisLoad runs the record module's InitGenesis on a genesis state holding the given records and
// reports, per record, the id it is stored under (found by exporting before and after).
func genesisLoad(e *lib.Env, k recordkeeper.Keeper, txh []byte, msgs []sdk.Msg) ([]lib.Outcome, bool) {
	var recs []recordtypes.Record
	for _, m := range msgs {
		rec := m.(*recordtypes.MsgCreateRecord)
		creator, err := sdk.AccAddressFromBech32(rec.Creator)
		if err != nil {
			return []lib.Outcome{{Kind: "rej"}}, false
		}
		recs = append(recs, recordtypes.NewRecord(txh, rec.Contents, creator))
	}
	ctr := k.GetIntraTxCounter(e.Ctx)
	out := e.Try(func(ctx sdk.Context) error {
		recordmodule.InitGenesis(ctx, k, *recordtypes.NewGenesisState(recs))
		return nil
	})
	if out.Kind != "ok" {
		return []lib.Outcome{out}, false
	}
	var outs []lib.Outcome
	for j, r := range recs {
		bz := e.App.AppCodec().MustMarshal(&r)
		pre := make([]byte, len(bz)+4)
		copy(pre, bz)
		binary.BigEndian.PutUint32(pre[len(bz):], ctr+uint32(j))
		id := sha256.Sum256(pre)
		// InitGenesis returns no ids: the id under which the record can be read back is the one
		// AddRecord derives; if the code stored it elsewhere the read-back below shows None
		outs = append(outs, lib.Outcome{Kind: "ok", Resp: &recordtypes.MsgCreateRecordResponse{Id: hex.EncodeToString(id[:])}})
	}
	return outs, true
}

func main() {
	lib.Main(lib.Driver[History]{Gen: gen, Exec: exec})
}
