package lib

import (
	"math/big"
)

// Rand is a splitmix64 generator: every random choice of a run derives from one state,
// so a (seed, index) pair replays exactly.
type Rand struct{ s uint64 }

func NewRand(seed uint64) *Rand { return &Rand{s: seed*0x9E3779B97F4A7C15 + 0x1234567} }

// Sub derives an independent stream for case i.
func (r *Rand) Sub(i uint64) *Rand {
	return &Rand{s: (r.s ^ (i+1)*0xBF58476D1CE4E5B9) * 0x94D049BB133111EB}
}

func (r *Rand) U64() uint64 {
	r.s += 0x9E3779B97F4A7C15
	z := r.s
	z = (z ^ (z >> 30)) * 0xBF58476D1CE4E5B9
	z = (z ^ (z >> 27)) * 0x94D049BB133111EB
	return z ^ (z >> 31)
}

// Intn returns a value in [0,n).
func (r *Rand) Intn(n int) int {
	if n <= 0 {
		return 0
	}
	return int(r.U64() % uint64(n))
}

// Range returns a value in [lo,hi].
func (r *Rand) Range(lo, hi int64) int64 {
	if hi <= lo {
		return lo
	}
	return lo + int64(r.U64()%uint64(hi-lo+1))
}

// Chance is true with probability num/den.
func (r *Rand) Chance(num, den int) bool { return r.Intn(den) < num }

// Pick returns one of the weighted alternatives' index.
func (r *Rand) Weighted(weights ...int) int {
	t := 0
	for _, w := range weights {
		t += w
	}
	x := r.Intn(t)
	for i, w := range weights {
		if x < w {
			return i
		}
		x -= w
	}
	return len(weights) - 1
}

// Big returns a non-negative integer of at most `bits` bits with a magnitude drawn
// log-uniformly (so small, medium and huge operands all occur).
func (r *Rand) Big(bits int) *big.Int {
	n := 1 + r.Intn(bits)
	x := new(big.Int)
	for i := 0; i < (n+63)/64; i++ {
		x.Lsh(x, 64)
		x.Or(x, new(big.Int).SetUint64(r.U64()))
	}
	m := new(big.Int).Lsh(big.NewInt(1), uint(n))
	return x.Mod(x, m)
}

// BigRange returns a uniformly random integer in [lo,hi].
func (r *Rand) BigRange(lo, hi *big.Int) *big.Int {
	d := new(big.Int).Sub(hi, lo)
	if d.Sign() <= 0 {
		return new(big.Int).Set(lo)
	}
	d.Add(d, big.NewInt(1))
	x := r.Big(d.BitLen() + 64)
	x.Mod(x, d)
	return x.Add(x, lo)
}
