// Package lib is the shared substrate of the correspondence harness: it builds the
// full irismod SimApp (all ten modules, e2e.AppConfig), drives it block by block with
// transaction atomicity (the "direct driver" of DESIGN.md 2.2) and offers a seeded PRNG
// and printers for Coq terms.
package lib

import (
	"context"
	"crypto/sha256"
	"encoding/binary"
	"fmt"
	"testing"
	"time"

	"cosmossdk.io/core/appmodule"
	sdkmath "cosmossdk.io/math"
	tmproto "github.com/cometbft/cometbft/proto/tendermint/types"
	"github.com/cosmos/cosmos-sdk/codec"
	sdk "github.com/cosmos/cosmos-sdk/types"
	authtypes "github.com/cosmos/cosmos-sdk/x/auth/types"
	banktypes "github.com/cosmos/cosmos-sdk/x/bank/types"
	minttypes "github.com/cosmos/cosmos-sdk/x/mint/types"

	"mods.irisnet.org/e2e"
	tokenkeeper "mods.irisnet.org/modules/token/keeper"
	"mods.irisnet.org/simapp"
)

// IrisModules is the begin/end-block order of the ten irismod modules in e2e/app_config.go.
var IrisModules = []string{"coinswap", "farm", "htlc", "mt", "nft", "service", "oracle", "random", "record", "token"}

// Env is one chain instance driven by the direct driver.
type Env struct {
	App    *simapp.SimApp
	Ctx    sdk.Context // context of the current block
	Height int64
	Time   time.Time
	Actors []sdk.AccAddress
	txSeq  uint64
	// Blockers lists the modules whose begin/end blockers are run (default IrisModules).
	Blockers []string
}

// EnvOpts configures NewEnv.
type EnvOpts struct {
	NActors   int
	Balances  sdk.Coins // initial balance of every actor
	Consumers []interface{}
	Providers []interface{} // extra providers; the mock EVM / ICS20 are always supplied unless NoMocks
	NoMocks   bool
	Merge     func(cdc codec.Codec, state simapp.GenesisState) simapp.GenesisState
	StartTime time.Time
}

// ActorAddr returns the deterministic address of actor i.
func ActorAddr(i int) sdk.AccAddress {
	h := sha256.Sum256([]byte(fmt.Sprintf("verif-actor-%d", i)))
	return sdk.AccAddress(h[:20])
}

// NewEnv builds the app, funds the actors at genesis and opens block 2.
func NewEnv(o EnvOpts) *Env {
	e := &Env{Blockers: IrisModules}
	for i := 0; i < o.NActors; i++ {
		e.Actors = append(e.Actors, ActorAddr(i))
	}
	providers := o.Providers
	if !o.NoMocks {
		providers = append([]interface{}{tokenkeeper.ProvideMockEVM(), tokenkeeper.ProvideMockICS20()}, providers...)
	}
	dopts := simapp.DepinjectOptions{Config: e2e.AppConfig, Providers: providers, Consumers: o.Consumers}
	merge := func(cdc codec.Codec, state simapp.GenesisState) simapp.GenesisState {
		// fund actors
		var bank banktypes.GenesisState
		cdc.MustUnmarshalJSON(state[banktypes.ModuleName], &bank)
		var auth authtypes.GenesisState
		cdc.MustUnmarshalJSON(state[authtypes.ModuleName], &auth)
		accs, err := authtypes.UnpackAccounts(auth.Accounts)
		if err != nil {
			panic(err)
		}
		for _, a := range e.Actors {
			if !o.Balances.IsZero() {
				bank.Balances = append(bank.Balances, banktypes.Balance{Address: a.String(), Coins: o.Balances})
				bank.Supply = bank.Supply.Add(o.Balances...)
			}
			accs = append(accs, authtypes.NewBaseAccountWithAddress(a))
		}
		packed, err := authtypes.PackAccounts(accs)
		if err != nil {
			panic(err)
		}
		auth.Accounts = packed
		state[banktypes.ModuleName] = cdc.MustMarshalJSON(&bank)
		state[authtypes.ModuleName] = cdc.MustMarshalJSON(&auth)
		// no inflation: nothing but the modules under test moves coins
		var mint minttypes.GenesisState
		cdc.MustUnmarshalJSON(state[minttypes.ModuleName], &mint)
		mint.Minter.Inflation = sdkmath.LegacyZeroDec()
		mint.Params.InflationMin = sdkmath.LegacyZeroDec()
		mint.Params.InflationMax = sdkmath.LegacyZeroDec()
		mint.Params.InflationRateChange = sdkmath.LegacyZeroDec()
		state[minttypes.ModuleName] = cdc.MustMarshalJSON(&mint)
		if o.Merge != nil {
			state = o.Merge(cdc, state)
		}
		return state
	}
	e.App = simapp.SetupWithGenesisStateFn(&testing.T{}, dopts, merge)
	e.Height = 1
	e.Time = o.StartTime
	if e.Time.IsZero() {
		e.Time = time.Unix(1700000000, 0).UTC()
	}
	e.newCtx()
	return e
}

func (e *Env) newCtx() {
	e.Ctx = e.App.BaseApp.NewContextLegacy(false, tmproto.Header{Height: e.Height, Time: e.Time, ChainID: "verif"})
}

// SetHeader replaces height/time/app hash of the current block context.
func (e *Env) SetHeader(h tmproto.Header) {
	e.Height = h.Height
	e.Time = h.Time
	e.Ctx = e.App.BaseApp.NewContextLegacy(false, h)
}

// Outcome of a step.
type Outcome struct {
	Kind  string // "ok", "rej", "abort"
	Err   string
	Resp  interface{}
	Event sdk.Events
}

func (o Outcome) OK() bool { return o.Kind == "ok" }

// Code maps the outcome kind to the small enum used on the Coq side: 0 ok, 1 rejected, 2 abort.
func (o Outcome) Code() int {
	switch o.Kind {
	case "ok":
		return 0
	case "rej":
		return 1
	}
	return 2
}

// BeginBlock advances to the next height (time += dt) and runs the begin blockers.
func (e *Env) BeginBlock(dt time.Duration) Outcome {
	e.Height++
	e.Time = e.Time.Add(dt)
	e.newCtx()
	return e.runBlockers(true)
}

// BeginBlockAt opens a block with an explicit header (height must be set by the caller).
func (e *Env) BeginBlockAt(h tmproto.Header) Outcome {
	e.SetHeader(h)
	return e.runBlockers(true)
}

// EndBlock runs the end blockers of the current block.
func (e *Env) EndBlock() Outcome { return e.runBlockers(false) }

func (e *Env) runBlockers(begin bool) (out Outcome) {
	defer func() {
		if r := recover(); r != nil {
			out = Outcome{Kind: "abort", Err: fmt.Sprint(r)}
		}
	}()
	ctx := e.Ctx.WithEventManager(sdk.NewEventManager())
	for _, name := range e.Blockers {
		m := e.App.ModuleManager.Modules[name]
		if begin {
			if b, ok := m.(appmodule.HasBeginBlocker); ok {
				if err := b.BeginBlock(ctx); err != nil {
					return Outcome{Kind: "abort", Err: err.Error()}
				}
			}
		} else {
			if b, ok := m.(appmodule.HasEndBlocker); ok {
				if err := b.EndBlock(ctx); err != nil {
					return Outcome{Kind: "abort", Err: err.Error()}
				}
			}
		}
	}
	return Outcome{Kind: "ok", Event: ctx.EventManager().Events()}
}

// NextTxBytes returns fresh, deterministic transaction bytes (ids of several modules derive from the tx hash).
func (e *Env) NextTxBytes() []byte {
	e.txSeq++
	b := make([]byte, 16)
	copy(b, "verif-tx")
	binary.BigEndian.PutUint64(b[8:], e.txSeq)
	return b
}

type validateBasic interface{ ValidateBasic() error }

// DeliverTx executes the messages atomically as one transaction with the given tx bytes:
// ValidateBasic of each (as baseapp does), then the routed handlers on a cache context
// that is written back only if all succeed. Panics are caught and reported as "abort".
func (e *Env) DeliverTx(txBytes []byte, msgs ...sdk.Msg) (outs []Outcome, ok bool) {
	cacheCtx, write := e.Ctx.CacheContext()
	cacheCtx = cacheCtx.WithTxBytes(txBytes).WithEventManager(sdk.NewEventManager())
	ok = true
	for _, m := range msgs {
		o := e.execOne(cacheCtx, m)
		outs = append(outs, o)
		if !o.OK() {
			ok = false
			break
		}
	}
	if ok {
		write()
	}
	return outs, ok
}

// Deliver executes one message as its own transaction.
func (e *Env) Deliver(msg sdk.Msg) Outcome {
	outs, _ := e.DeliverTx(e.NextTxBytes(), msg)
	return outs[len(outs)-1]
}

func (e *Env) execOne(ctx sdk.Context, msg sdk.Msg) (out Outcome) {
	defer func() {
		if r := recover(); r != nil {
			out = Outcome{Kind: "abort", Err: fmt.Sprint(r)}
		}
	}()
	if v, ok := msg.(validateBasic); ok {
		if err := v.ValidateBasic(); err != nil {
			return Outcome{Kind: "rej", Err: "validate-basic: " + err.Error()}
		}
	}
	h := e.App.MsgServiceRouter().Handler(msg)
	if h == nil {
		return Outcome{Kind: "rej", Err: "no handler for " + sdk.MsgTypeURL(msg)}
	}
	res, err := h(ctx, msg)
	if err != nil {
		return Outcome{Kind: "rej", Err: err.Error()}
	}
	var resp interface{}
	if res != nil && len(res.MsgResponses) > 0 {
		resp = res.MsgResponses[0].GetCachedValue()
	}
	return Outcome{Kind: "ok", Resp: resp, Event: ctx.EventManager().Events()}
}

// Try runs f on a cache context of the current block and writes back only if f returns nil
// (used for direct keeper calls that must be atomic like a transaction).
func (e *Env) Try(f func(ctx sdk.Context) error) (out Outcome) {
	defer func() {
		if r := recover(); r != nil {
			out = Outcome{Kind: "abort", Err: fmt.Sprint(r)}
		}
	}()
	cacheCtx, write := e.Ctx.CacheContext()
	cacheCtx = cacheCtx.WithTxBytes(e.NextTxBytes())
	if err := f(cacheCtx); err != nil {
		return Outcome{Kind: "rej", Err: err.Error()}
	}
	write()
	return Outcome{Kind: "ok"}
}

// Balance of an address in a denom.
func (e *Env) Balance(a sdk.AccAddress, denom string) sdkmath.Int {
	return e.App.BankKeeper.GetBalance(e.Ctx, a, denom).Amount
}

// Supply of a denom.
func (e *Env) Supply(denom string) sdkmath.Int {
	return e.App.BankKeeper.GetSupply(e.Ctx, denom).Amount
}

// ModuleAddr returns the address of a module account.
func ModuleAddr(name string) sdk.AccAddress { return authtypes.NewModuleAddress(name) }

// MintTo mints coins (through the mint module account) to an address: test funding outside genesis.
func (e *Env) MintTo(a sdk.AccAddress, coins sdk.Coins) {
	if err := e.App.BankKeeper.MintCoins(e.Ctx, minttypes.ModuleName, coins); err != nil {
		panic(err)
	}
	if err := e.App.BankKeeper.SendCoinsFromModuleToAccount(e.Ctx, minttypes.ModuleName, a, coins); err != nil {
		panic(err)
	}
}

var _ = context.Background
