package lib

import (
	"bufio"
	"encoding/json"
	"flag"
	"fmt"
	"math/big"
	"os"
	"strings"

	sdkmath "cosmossdk.io/math"
)

// Case is what a driver reports for one executed history.
type Case struct {
	// Coq is a Gallina term (type: the property's `case`) holding the operations and the
	// implementation's projected observations; it is evaluated by Check.v inside coqc.
	Coq string `json:"coq"`
	// NonTrivial by the property's stated rule (DESIGN.md appendix A).
	NonTrivial bool `json:"nontrivial"`
	// Stats are histogram contributions (operation kinds, result kinds, magnitudes).
	Stats map[string]int `json:"stats"`
	// Notes are harness-side hard discrepancies (e.g. an id that is not the hash of the
	// model's pre-image); any note counts as a divergence.
	Notes []string `json:"notes,omitempty"`
	// Steps is a readable rendering of the executed steps, for replay files and evidence.
	Steps []string `json:"steps,omitempty"`
}

type line[H any] struct {
	Idx     int    `json:"idx"`
	Seed    uint64 `json:"seed"`
	Tier    string `json:"tier"`
	Stream  string `json:"stream"`
	Replay  string `json:"replay,omitempty"`
	History H      `json:"history"`
	Case
}

// Driver is implemented once per property (or property group).
type Driver[H any] struct {
	// Gen draws history number i of the given stream from r.
	Gen func(r *Rand, tier string, stream string, i int) H
	// Exec runs the history against the real implementation and reports the case.
	Exec func(h H) Case
}

// Main is the common command line of all driver binaries:
//
//	gen    -seed S -tier quick|thorough -stream NAME -from A -to B -out FILE
//	replay -in FILE[,FILE...] -out FILE     (FILE: one JSON object with a "history" member per line)
func Main[H any](d Driver[H]) {
	if len(os.Args) < 2 {
		fmt.Fprintln(os.Stderr, "usage: gen|replay ...")
		os.Exit(2)
	}
	fs := flag.NewFlagSet(os.Args[1], flag.ExitOnError)
	seed := fs.Uint64("seed", 1, "")
	tier := fs.String("tier", "quick", "")
	stream := fs.String("stream", "main", "")
	from := fs.Int("from", 0, "")
	to := fs.Int("to", 1, "")
	out := fs.String("out", "", "")
	in := fs.String("in", "", "")
	_ = fs.Parse(os.Args[2:])
	w := bufio.NewWriterSize(os.Stdout, 1<<20)
	if *out != "" {
		f, err := os.Create(*out)
		if err != nil {
			panic(err)
		}
		defer f.Close()
		w = bufio.NewWriterSize(f, 1<<20)
	}
	defer w.Flush()
	enc := json.NewEncoder(w)
	switch os.Args[1] {
	case "gen":
		base := NewRand(*seed ^ hashStr(*stream))
		for i := *from; i < *to; i++ {
			h := d.Gen(base.Sub(uint64(i)), *tier, *stream, i)
			c := d.Exec(h)
			if err := enc.Encode(line[H]{Idx: i, Seed: *seed, Tier: *tier, Stream: *stream, History: h, Case: c}); err != nil {
				panic(err)
			}
		}
	case "replay":
		idx := 0
		for _, fn := range strings.Split(*in, ",") {
			if fn == "" {
				continue
			}
			f, err := os.Open(fn)
			if err != nil {
				panic(err)
			}
			sc := bufio.NewScanner(f)
			sc.Buffer(make([]byte, 1<<20), 1<<28)
			for sc.Scan() {
				if len(strings.TrimSpace(sc.Text())) == 0 {
					continue
				}
				var l line[H]
				if err := json.Unmarshal(sc.Bytes(), &l); err != nil {
					panic(fmt.Sprintf("%s: %v", fn, err))
				}
				c := d.Exec(l.History)
				if err := enc.Encode(line[H]{Idx: idx, Seed: l.Seed, Tier: l.Tier, Stream: l.Stream, Replay: fn, History: l.History, Case: c}); err != nil {
					panic(err)
				}
				idx++
			}
			f.Close()
		}
	default:
		fmt.Fprintln(os.Stderr, "unknown mode")
		os.Exit(2)
	}
}

func hashStr(s string) uint64 {
	var h uint64 = 1469598103934665603
	for i := 0; i < len(s); i++ {
		h ^= uint64(s[i])
		h *= 1099511628211
	}
	return h
}

// ---- printing Gallina terms (cases files open Z_scope and list notations) ----

// Z prints an integer literal.
func Z(x int64) string {
	if x < 0 {
		return fmt.Sprintf("(%d)", x)
	}
	return fmt.Sprintf("%d", x)
}

// ZU prints an unsigned integer literal.
func ZU(x uint64) string { return fmt.Sprintf("%d", x) }

// ZB prints a big integer literal.
func ZB(x *big.Int) string {
	if x.Sign() < 0 {
		return "(" + x.String() + ")"
	}
	return x.String()
}

// ZI prints an sdkmath.Int.
func ZI(x sdkmath.Int) string {
	if x.IsNil() {
		return "0"
	}
	return ZB(x.BigInt())
}

// B prints a bool.
func B(b bool) string {
	if b {
		return "true"
	}
	return "false"
}

// L prints a list.
func L(items ...string) string { return "[" + strings.Join(items, "; ") + "]" }

// App prints a constructor application.
func App(ctor string, args ...string) string {
	if len(args) == 0 {
		return ctor
	}
	return "(" + ctor + " " + strings.Join(args, " ") + ")"
}

// Pair prints a tuple.
func Pair(items ...string) string { return "(" + strings.Join(items, ", ") + ")" }

// Opt prints an option.
func Opt(present bool, v string) string {
	if present {
		return "(Some " + v + ")"
	}
	return "None"
}

// Interner maps byte strings / opaque identifiers to small integers in first-seen order,
// so equal identifiers are equal numbers in the Coq case and distinct ones distinct.
type Interner struct {
	m map[string]int
}

func NewInterner() *Interner { return &Interner{m: map[string]int{}} }

func (n *Interner) Id(s string) int {
	if v, ok := n.m[s]; ok {
		return v
	}
	v := len(n.m)
	n.m[s] = v
	return v
}

func (n *Interner) Len() int { return len(n.m) }

// Stat increments a histogram bucket.
func Stat(m map[string]int, k string) { m[k]++ }
