package lib

// ABCIEnv: the ABCI driver as a library (added by the nftmt group, modelled on
// cmd/determinism/abci.go): the full SimApp over an in-memory database, driven through the real
// ABCI surface — InitChain with a genesis document (default genesis of every module, one validator,
// the funded actors), then per block FinalizeBlock with SIGNED transactions (ante handlers:
// signature, sequence, fee, gas; baseapp's ValidateBasic; the routed handler; atomic write-back)
// and Commit.  The embedded Env carries App, Actors (addresses of the actors' secp256k1 keys),
// Height, Time and, after every Commit, a read context over the committed state, so that
// observation code written for the direct driver works unchanged.

import (
	"encoding/json"
	"fmt"
	"math/rand"
	"os"
	"path/filepath"
	"sync/atomic"
	"time"

	"cosmossdk.io/log"
	sdkmath "cosmossdk.io/math"
	abci "github.com/cometbft/cometbft/abci/types"
	cmted25519 "github.com/cometbft/cometbft/crypto/ed25519"
	tmproto "github.com/cometbft/cometbft/proto/tendermint/types"
	cmttypes "github.com/cometbft/cometbft/types"
	dbm "github.com/cosmos/cosmos-db"
	"github.com/cosmos/cosmos-sdk/baseapp"
	"github.com/cosmos/cosmos-sdk/client/flags"
	"github.com/cosmos/cosmos-sdk/crypto/keys/secp256k1"
	cryptotypes "github.com/cosmos/cosmos-sdk/crypto/types"
	"github.com/cosmos/cosmos-sdk/server"
	simtestutil "github.com/cosmos/cosmos-sdk/testutil/sims"
	sdk "github.com/cosmos/cosmos-sdk/types"
	authtypes "github.com/cosmos/cosmos-sdk/x/auth/types"
	banktypes "github.com/cosmos/cosmos-sdk/x/bank/types"

	"mods.irisnet.org/e2e"
	tokenkeeper "mods.irisnet.org/modules/token/keeper"
	"mods.irisnet.org/simapp"
)

const ABCIChainID = "verif-abci"

var abciSeq int64

// ABCIEnv is one chain driven through ABCI.
type ABCIEnv struct {
	*Env
	keys map[string]cryptotypes.PrivKey
	memo *rand.Rand
	home string
}

// NewABCIEnv builds the app, runs InitChain and commits the (empty) first block.
func NewABCIEnv(nActors int, consumers []interface{}) *ABCIEnv {
	a := &ABCIEnv{Env: &Env{Blockers: IrisModules}, keys: map[string]cryptotypes.PrivKey{}, memo: rand.New(rand.NewSource(14))}
	exe, err := os.Executable()
	if err != nil {
		exe = os.Args[0]
	}
	a.home = filepath.Join(filepath.Dir(exe), "tmp", fmt.Sprintf("abci-%d-%d", os.Getpid(), atomic.AddInt64(&abciSeq, 1)))
	_ = os.MkdirAll(a.home, 0o755)
	for i := 0; i < nActors; i++ {
		k := secp256k1.GenPrivKeyFromSecret([]byte(fmt.Sprintf("verif-abci-actor-%d", i)))
		addr := sdk.AccAddress(k.PubKey().Address())
		a.Actors = append(a.Actors, addr)
		a.keys[addr.String()] = k
	}
	opts := simtestutil.AppOptionsMap{flags.FlagHome: a.home, server.FlagInvCheckPeriod: uint(0)}
	a.App = simapp.NewSimApp(log.NewNopLogger(), dbm.NewMemDB(), nil, true,
		simapp.DepinjectOptions{Config: e2e.AppConfig,
			Providers: []interface{}{tokenkeeper.ProvideMockEVM(), tokenkeeper.ProvideMockICS20()},
			Consumers: consumers},
		opts, baseapp.SetChainID(ABCIChainID))
	a.Time = time.Unix(1700000000, 0).UTC()
	// genesis: default genesis of every module, one validator, funded actors
	gs := a.App.DefaultGenesis()
	valPub := cmted25519.GenPrivKeyFromSecret([]byte("verif-abci-validator")).PubKey()
	valSet := cmttypes.NewValidatorSet([]*cmttypes.Validator{cmttypes.NewValidator(valPub, 1)})
	bal := sdk.NewCoins(sdk.NewCoin("stake", sdkmath.NewInt(1_000_000_000_000)))
	var accs []authtypes.GenesisAccount
	var bals []banktypes.Balance
	for _, ad := range a.Actors {
		accs = append(accs, authtypes.NewBaseAccountWithAddress(ad))
		bals = append(bals, banktypes.Balance{Address: ad.String(), Coins: bal})
	}
	gs2, err := simtestutil.GenesisStateWithValSet(a.App.AppCodec(), gs, valSet, accs, bals...)
	if err != nil {
		panic(err)
	}
	bz, err := json.MarshalIndent(gs2, "", " ")
	if err != nil {
		panic(err)
	}
	if _, err := a.App.InitChain(&abci.RequestInitChain{ChainId: ABCIChainID, Time: a.Time, InitialHeight: 1,
		Validators: []abci.ValidatorUpdate{}, ConsensusParams: simtestutil.DefaultConsensusParams, AppStateBytes: bz}); err != nil {
		panic("InitChain: " + err.Error())
	}
	a.Height = 0
	a.DeliverBlock(0) // block 1 commits the genesis state
	return a
}

// Close releases the app and its home directory.
func (a *ABCIEnv) Close() {
	_ = a.App.Close()
	_ = os.RemoveAll(a.home)
}

func (a *ABCIEnv) readCtx() {
	a.Ctx = a.App.NewUncachedContext(false, tmproto.Header{Height: a.Height, Time: a.Time, ChainID: ABCIChainID})
}

// DeliverBlock executes one block holding one signed transaction per message (in order) and commits
// it.  A message whose signer is not one of the actors (empty or malformed sender: no transaction
// can be signed for it) is not submitted and reported as rejected.
func (a *ABCIEnv) DeliverBlock(dt time.Duration, msgs ...sdk.Msg) []Outcome {
	a.Height++
	a.Time = a.Time.Add(dt)
	outs := make([]Outcome, len(msgs))
	var txs [][]byte
	var idx []int
	seqs := map[string]uint64{}
	if a.Height > 1 {
		a.readCtxAt(a.Height - 1)
	}
	for i, msg := range msgs {
		signers, _, err := a.App.AppCodec().GetMsgV1Signers(msg)
		if err != nil || len(signers) != 1 {
			outs[i] = Outcome{Kind: "rej", Err: "unsignable: no valid signer"}
			continue
		}
		addr := sdk.AccAddress(signers[0])
		priv, ok := a.keys[addr.String()]
		if !ok {
			outs[i] = Outcome{Kind: "rej", Err: "unsignable: signer is not an actor"}
			continue
		}
		acc := a.App.AccountKeeper.GetAccount(a.Ctx, addr)
		if acc == nil {
			panic("actor account missing")
		}
		if _, ok := seqs[addr.String()]; !ok {
			seqs[addr.String()] = acc.GetSequence()
		}
		tx, err := simtestutil.GenSignedMockTx(a.memo, a.App.TxConfig(), []sdk.Msg{msg}, sdk.Coins{sdk.NewInt64Coin("stake", 0)},
			simtestutil.DefaultGenTxGas, ABCIChainID, []uint64{acc.GetAccountNumber()}, []uint64{seqs[addr.String()]}, priv)
		if err != nil {
			panic(err)
		}
		seqs[addr.String()]++
		bz, err := a.App.TxConfig().TxEncoder()(tx)
		if err != nil {
			panic(err)
		}
		txs = append(txs, bz)
		idx = append(idx, i)
	}
	resp, err := a.App.FinalizeBlock(&abci.RequestFinalizeBlock{Height: a.Height, Time: a.Time, Txs: txs})
	if err != nil {
		for _, i := range idx {
			outs[i] = Outcome{Kind: "abort", Err: "FinalizeBlock: " + err.Error()}
		}
		a.Height--
		return outs
	}
	for j, tr := range resp.TxResults {
		if tr.Code == 0 {
			outs[idx[j]] = Outcome{Kind: "ok"}
		} else if tr.Codespace == "undefined" && tr.Code == 111222 {
			// baseapp recovered a panic of the handler (sdkerrors.ErrPanic)
			outs[idx[j]] = Outcome{Kind: "abort", Err: tr.Log}
		} else {
			outs[idx[j]] = Outcome{Kind: "rej", Err: fmt.Sprintf("%s/%d: %s", tr.Codespace, tr.Code, tr.Log)}
		}
	}
	if _, err := a.App.Commit(); err != nil {
		panic(err)
	}
	a.readCtx()
	return outs
}

// readCtxAt: a read context over the last committed state (used while building the next block).
func (a *ABCIEnv) readCtxAt(h int64) {
	a.Ctx = a.App.NewUncachedContext(false, tmproto.Header{Height: h, Time: a.Time, ChainID: ABCIChainID})
}
