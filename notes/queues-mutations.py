#!/usr/bin/env python3
"""Mutation self-test for C13: apply one edit to /work/queues/repo, run check/run C13 quick, revert.
usage: mut.py [names...]   (no names: all)"""
import subprocess, sys, os, re, json, time

REPO = "/work/queues/repo"
VERIF = "/work/queues/verif"
ENV = dict(os.environ, VERIF_REPO=REPO, GOFLAGS="-mod=mod", GOPROXY="off", GOSUMDB="off", GOTOOLCHAIN="local")

M = {}
def mut(name, file, old, new, expect="violation"):
    M[name] = (file, old, new, expect)

# ---------------- htlc
mut("htlc-no-dequeue", "modules/htlc/abci.go",
    "\t\t\tk.DeleteHTLCFromExpiredQueue(ctx, currentBlockHeight, id)\n", "")
mut("htlc-dequeue-without-refund", "modules/htlc/abci.go",
    "\t\t\t_ = k.RefundHTLC(ctx, h, id)\n", "\t\t\t_ = h\n")
mut("htlc-wrong-height", "modules/htlc/abci.go",
    "\tcurrentBlockHeight := uint64(ctx.BlockHeight())\n", "\tcurrentBlockHeight := uint64(ctx.BlockHeight()) - 1\n")
mut("htlc-claim-keeps-entry", "modules/htlc/keeper/htlc.go",
    "\tk.DeleteHTLCFromExpiredQueue(ctx, htlc.ExpirationHeight, id)\n", "")
# ---------------- random
mut("random-wrong-height", "modules/random/abci.go",
    "\tlastBlockHeight := ctx.BlockHeight() - 1\n", "\tlastBlockHeight := ctx.BlockHeight() - 2\n")
mut("random-plain-no-dequeue", "modules/random/abci.go",
    "\t\t\t// remove the request\n\t\t\tk.DequeueRandomRequest(ctx, lastBlockHeight, reqID)\n", "\t\t\t// remove the request\n")
mut("random-dequeue-without-random", "modules/random/abci.go",
    "\t\t\tk.SetRandom(ctx, reqID, types.NewRandom(request.TxHash, lastBlockHeight, random.FloatString(types.RandPrec)))\n", "")
mut("random-oracle-dequeue-without-start", "modules/random/abci.go",
    "if err := k.StartRequestContext(ctx, serviceContextID, consumer); err == nil {", "if err := error(nil); err == nil {")
mut("random-unfix-interval-guard", "modules/random/keeper/keeper.go",
    "\tif int64(blockInterval) < 0 || destHeight < currentHeight {", "\tif false {")
# ---------------- farm
mut("farm-refund-no-dequeue", "modules/farm/keeper/farmer.go",
    "\t// remove from active Pool\n\tk.DequeueActivePool(ctx, pool.Id, pool.EndHeight)\n", "\t// remove from active Pool\n")
mut("farm-dequeue-without-refund", "modules/farm/abci.go",
    "\t\tif _, err := k.Refund(ctx, pool); err != nil {", "\t\tk.DequeueActivePool(ctx, pool.Id, pool.EndHeight)\n\t\tif err := error(nil); err != nil {")
mut("farm-wrong-height", "modules/farm/abci.go",
    "\tk.IteratorExpiredPool(ctx, ctx.BlockHeight(), func(pool types.FarmPool) {", "\tk.IteratorExpiredPool(ctx, ctx.BlockHeight()-1, func(pool types.FarmPool) {")
mut("farm-adjust-keeps-old-entry", "modules/farm/keeper/pool.go",
    "\t// remove from Expired Pool at old height\n\tk.DequeueActivePool(ctx, pool.Id, pool.EndHeight)\n", "\t// remove from Expired Pool at old height\n")
mut("farm-adjust-enqueues-old-height", "modules/farm/keeper/pool.go",
    "\tk.DequeueActivePool(ctx, pool.Id, pool.EndHeight)\n\tpool.EndHeight = expiredHeight\n\tk.SetPool(ctx, pool)\n\t// put to expired farm pool queue at new height\n\tk.EnqueueActivePool(ctx, pool.Id, pool.EndHeight)\n",
    "\tk.DequeueActivePool(ctx, pool.Id, pool.EndHeight)\n\tk.EnqueueActivePool(ctx, pool.Id, pool.EndHeight)\n\tpool.EndHeight = expiredHeight\n\tk.SetPool(ctx, pool)\n")
# ---------------- service
mut("service-unfix-filter-error", "modules/service/abci.go",
    "\t\t\t\tk.SkipCurrentRequestBatch(ctx, requestContextID, *requestContext)\n\t\t\t\tk.DeleteNewRequestBatch(ctx, requestContextID, ctx.BlockHeight())\n\t\t\t\treturn\n", "\t\t\t\treturn\n")
mut("service-expiration-no-dequeue", "modules/service/abci.go",
    "\t\tk.DeleteRequestBatchExpiration(ctx, requestContextID, ctx.BlockHeight())\n", "")
mut("service-new-batch-dequeue-without-start", "modules/service/abci.go",
    "\t\t\t\tif requestContext.State == types.RUNNING {\n\t\t\t\t\t_ = k.InitiateRequests(", "\t\t\t\tif false {\n\t\t\t\t\t_ = k.InitiateRequests(")
mut("service-new-batch-wrong-height", "modules/service/abci.go",
    "\tk.IterateNewRequestBatch(ctx, ctx.BlockHeight(), newRequestBatchHandler)", "\tk.IterateNewRequestBatch(ctx, ctx.BlockHeight()-1, newRequestBatchHandler)")
mut("service-start-always-enqueues", "modules/service/keeper/invocation.go",
    "\tif !k.HasRequestBatchExpiration(ctx, requestContextID) &&\n\t\t!k.HasNewRequestBatch(ctx, requestContextID) {", "\tif true {")
mut("service-start-ignores-new-batch-entry", "modules/service/keeper/invocation.go",
    "\tif !k.HasRequestBatchExpiration(ctx, requestContextID) &&\n\t\t!k.HasNewRequestBatch(ctx, requestContextID) {", "\tif !k.HasRequestBatchExpiration(ctx, requestContextID) {")
mut("service-next-batch-in-the-past", "modules/service/abci.go",
    "\t\t\t\t\tctx.BlockHeight()-requestContext.Timeout+int64(\n\t\t\t\t\t\trequestContext.RepeatedFrequency,\n\t\t\t\t\t),", "\t\t\t\t\tctx.BlockHeight()-requestContext.Timeout,")
mut("service-callback-always-nil-error", "modules/service/keeper/invocation.go",
    "\tif len(outputs) >= int(requestContext.BatchResponseThreshold) {\n\t\trespCallback(ctx, requestContextID, outputs, nil)", "\tif true {\n\t\trespCallback(ctx, requestContextID, outputs, nil)")
mut("service-module-threshold-zero-allowed", "modules/service/keeper/invocation.go",
    "\t\tif responseThreshold < 1 || int(responseThreshold) > len(providers) {", "\t\tif int(responseThreshold) > len(providers) {")
# ---------------- harmless refactors: must stay quiet
mut("harmless-farm-blocker-reads-height-once", "modules/farm/abci.go",
    "\tk.IteratorExpiredPool(ctx, ctx.BlockHeight(), func(pool types.FarmPool) {", "\theight := ctx.BlockHeight()\n\tk.IteratorExpiredPool(ctx, height, func(pool types.FarmPool) {", expect="quiet")
mut("harmless-service-dequeue-before-event", "modules/service/abci.go",
    "\t\t\t\tk.SkipCurrentRequestBatch(ctx, requestContextID, *requestContext)\n\t\t\t\tk.DeleteNewRequestBatch(ctx, requestContextID, ctx.BlockHeight())\n\t\t\t\treturn\n",
    "\t\t\t\tk.DeleteNewRequestBatch(ctx, requestContextID, ctx.BlockHeight())\n\t\t\t\tk.SkipCurrentRequestBatch(ctx, requestContextID, *requestContext)\n\t\t\t\treturn\n", expect="quiet")
mut("harmless-htlc-dequeue-before-refund", "modules/htlc/abci.go",
    "\t\t\t_ = k.RefundHTLC(ctx, h, id)\n\t\t\t// delete from the expiration queue\n\t\t\tk.DeleteHTLCFromExpiredQueue(ctx, currentBlockHeight, id)\n",
    "\t\t\tk.DeleteHTLCFromExpiredQueue(ctx, currentBlockHeight, id)\n\t\t\t_ = k.RefundHTLC(ctx, h, id)\n", expect="quiet")

def clean():
    subprocess.run(["git", "-C", REPO, "checkout", "--", "."], check=True)
    st = subprocess.run(["git", "-C", REPO, "status", "--short"], capture_output=True, text=True).stdout.strip()
    assert st == "", st

def run_one(name):
    file, old, new, expect = M[name]
    clean()
    p = os.path.join(REPO, file)
    s = open(p).read()
    if s.count(old) != 1:
        return name, "SKIP: pattern occurs %d times" % s.count(old)
    open(p, "w").write(s.replace(old, new))
    t0 = time.time()
    try:
        r = subprocess.run([os.path.join(VERIF, "check/run"), "C13", "quick"], env=ENV, cwd=VERIF, capture_output=True, text=True, timeout=3000)
        out = r.stdout + r.stderr
        rc = r.returncode
    finally:
        clean()
    lines = [l for l in out.splitlines() if l.startswith("VIOLATION") or l.startswith("KNOWN") or l.startswith("C13 ") or "go build failed" in l]
    detail = []
    for l in lines:
        m = re.search(r"replay=(\S+)", l)
        if m and os.path.exists(m.group(1)):
            d = json.loads(open(m.group(1)).readline())
            detail.append("%s step=%s nsteps=%s" % (d.get("classification") or d.get("kind"), d.get("step"),
                                                    len((d.get("case") or {}).get("history", {}).get("Steps", [])) if d.get("case") else "-"))
    ok = (expect == "violation" and rc == 1 and detail and all("no-failing" not in x for x in detail)) or (expect == "quiet" and rc == 0)
    return name, "%s rc=%d %.0fs expect=%s | %s | %s" % ("PASS" if ok else "FAIL", rc, time.time() - t0, expect, "; ".join(detail), lines[-1] if lines else out[-300:])

if __name__ == "__main__":
    names = sys.argv[1:] or list(M)
    with open("/work/queues/scratch/mut-results.txt", "a") as f:
        for n in names:
            res = run_one(n)
            print(*res, flush=True)
            f.write("%s: %s\n" % res)
            f.flush()
