"""Per-property configuration of the check driver (check.py)."""

COMMON_TRUSTED = [
    "Coq 8.16.1 kernel (coqc; vm_compute used for evaluating cases; no native_compute)",
    "correspondence harness /verif/harness (generators, direct driver reproducing baseapp's "
    "ValidateBasic + routed handler + cache-context atomicity, observable projections)",
    "Cosmos SDK bank/auth/store, cosmossdk.io/math, SHA-256, protobuf runtimes: modelled or used as oracles, not verified",
]

PROPS = {}

import glob as _glob, os as _os, importlib.util as _ilu

for _p in sorted(_glob.glob(_os.path.join(_os.path.dirname(_os.path.abspath(__file__)), "propsd", "*.py"))):
    _spec = _ilu.spec_from_file_location("propsd_" + _os.path.basename(_p)[:-3], _p)
    _m = _ilu.module_from_spec(_spec)
    _spec.loader.exec_module(_m)
    PROPS.update(getattr(_m, "PROPS", {}))
