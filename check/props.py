"""Per-property configuration of the check driver (check.py)."""

COMMON_TRUSTED = [
    "Coq 8.16.1 kernel (coqc; vm_compute used for evaluating cases; no native_compute)",
    "correspondence harness /verif/harness (generators, direct driver reproducing baseapp's "
    "ValidateBasic + routed handler + cache-context atomicity, observable projections)",
    "Cosmos SDK bank/auth/store, cosmossdk.io/math, SHA-256, protobuf runtimes: modelled or used as oracles, not verified",
]

PROPS = {}

import glob as _glob, os as _os, importlib.util as _ilu

for _p in sorted(_glob.glob(_os.path.join(_os.path.dirname(_os.path.abspath(__file__)), "propsd", "*.py"))):
    _spec = _ilu.spec_from_file_location("propsd_" + _os.path.basename(_p)[:-3], _p)
    _m = _ilu.module_from_spec(_spec)
    _spec.loader.exec_module(_m)
    PROPS.update(getattr(_m, "PROPS", {}))

# The differential stream that validates coq/Base/Dec.v (the restatement of cosmossdk.io/math's LegacyDec
# rounding rules) against the library runs as part of the checks whose models compute with LegacyDec.
from importlib import util as _u
_sp = _u.spec_from_file_location("propsd_zz_arith_x", _os.path.join(_os.path.dirname(_os.path.abspath(__file__)), "propsd", "zz_arith.py"))
_am = _u.module_from_spec(_sp); _sp.loader.exec_module(_am)
for _pid in ("C05", "C10"):
    if _pid in PROPS and not any(s.get("name") == "arith" for s in PROPS[_pid]["streams"]):
        PROPS[_pid]["streams"] = list(PROPS[_pid]["streams"]) + [dict(_am.ARITH_STREAM, codes={0: "base-dec-differs-from-cosmossdk-math"})]
        if "Base/DecCheck.vo" not in PROPS[_pid].get("coq_targets", []):
            PROPS[_pid]["coq_targets"] = list(PROPS[_pid].get("coq_targets", [])) + ["Base/DecCheck.vo"]
