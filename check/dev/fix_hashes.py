#!/usr/bin/env python3
"""Rewrites the `fixed:` lines of known-findings.txt to the interface format
   fixed: property=<id> <commit> <subject> -- <what failed>
taking <commit> from /repo's history by subject (hashes change on cherry-pick). Idempotent."""
import re, subprocess
log = subprocess.run(["git", "-C", "/repo", "log", "--format=%h\t%s", "43b15c0..HEAD"], stdout=subprocess.PIPE, text=True).stdout
subj = {}
for ln in log.splitlines():
    h, s = ln.split("\t", 1)
    subj[s] = h
out = []
for ln in open("/verif/known-findings.txt"):
    m = re.match(r"fixed:\s+property=(C\d+)\s+(.*)$", ln.rstrip("\n"))
    if not m:
        out.append(ln)
        continue
    pid, rest = m.groups()
    rest = re.sub(r"^[0-9a-f]{7,12}\s+", "", rest)          # drop an earlier hash
    best = None
    for s, h in subj.items():
        if s in rest and (best is None or len(s) > len(best[0])):
            best = (s, h)
    if best is None:
        out.append(ln)
        print("NO COMMIT FOUND FOR:", ln[:100])
        continue
    s, h = best
    tail = rest.replace('"' + s + '"', "").replace(s, "")
    tail = re.sub(r"^\s*(—|--|-)?\s*", "", tail.strip())
    out.append("fixed: property=%s %s %s -- %s\n" % (pid, h, s, tail))
open("/verif/known-findings.txt", "w").writelines(out)
print("fix commits in /repo:", len([s for s in subj if s.startswith("fix:")]))
used = set(re.findall(r"^fixed: property=\S+ ([0-9a-f]+) ", "".join(out), re.M))
for s, h in subj.items():
    if s.startswith("fix:") and h not in used:
        print("fix commit without a fixed: line:", h, s)
