#!/usr/bin/env python3
"""Regenerates /verif/MANIFEST.json from check/propsd (which properties have a check) and the
texts in check/dev/manifest_texts.json.  Development helper; MANIFEST.json is committed."""
import json, os, sys, subprocess
V = os.path.dirname(os.path.dirname(os.path.dirname(os.path.abspath(__file__))))
sys.path.insert(0, os.path.join(V, "check"))
import props as P  # noqa

texts = json.load(open(os.path.join(V, "check", "dev", "manifest_texts.json")))
ids = [json.loads(l)["id"] for l in open(os.path.join(V, "properties.jsonl"))]
disabled = set(texts.get("_disabled", {}))
claimed = [i for i in ids if i in P.PROPS and i not in disabled]
hooks_commits = []
hp = os.path.join(V, "MANIFEST.hooks")
for ln in open(hp):
    ln = ln.strip()
    if ln and not ln.startswith("#"):
        c = ln.split()[0]
        if c not in hooks_commits:
            hooks_commits.append(c)
man = {
    "version": 1,
    "setup_cmd": "check/setup.sh",
    "hooks": {
        "guard": "verif",
        "enable": "go build -tags verif (harness drivers are built with the tag; add-only export_verif*.go files listed in MANIFEST.hooks)",
        "baseline_off_cmd": "for m in $(cat /w/out/gomods.txt); do MF=$(cd /repo/$m && . /w/out/goenv.sh && gomodflag); (cd /repo/$m && go test $MF -json -vet=off -count=1 -timeout 25m ./...); done",
        "source_commits": hooks_commits,
        "add_only": True,
    },
    "engines": [{
        "name": "coq-correspondence", "path": "check/check.py", "serves_properties": claimed,
        "kind_free_text": "Coq 8.16.1 theorems over Gallina models (coq/), hand-written and tied to /repo by a correspondence "
                          "check (generated histories run against the real keepers by harness/, observations evaluated against the model and the "
                          "property's trace predicate by vm_compute inside coqc), or regenerated from /repo's source by translators (coq/Gen) and re-proved on every run",
    }],
    "checks": [],
    "notes": "See DESIGN.md. Replay files are written under /verif/build/replay/. known-findings.txt lists recorded findings and fixed: entries.",
    "not_applicable": [],
}
for i in claimed:
    t = texts[i]
    man["checks"].append({
        "property_id": i,
        "quick_cmd": "check/run %s quick" % i,
        "thorough_cmd": "check/run %s thorough" % i,
        "evidence_file": "/verif/evidence/%s.json" % i,
        "replay_cmd_template": "check/run %s quick --replay {path}" % i,
        "engine": "coq-correspondence",
        "level_claimed": {"category": "proof", "text": t["text"], "design_ref": "4/" + i},
        "level_note": t["note"],
        "technique": t.get("technique", "Rocq/Coq proof over a hand-written model + differential correspondence with the keepers (vm_compute)"),
    })
for i in ids:
    if i not in claimed:
        man["not_applicable"].append({"property_id": i, "reason": texts.get("_disabled", {}).get(i) or texts.get("_na", {}).get(i, "check not built yet (planned, see DESIGN.md section 4)")})
json.dump(man, open(os.path.join(V, "MANIFEST.json"), "w"), indent=1)
print("claimed:", claimed)
print("not applicable:", [x["property_id"] for x in man["not_applicable"]])
try:
    import jsonschema
    jsonschema.validate(man, json.load(open("/root/.vp/MANIFEST.schema.json")))
    print("schema ok")
except ImportError:
    print("(jsonschema not importable here; validate with python3-vt)")
