#!/bin/sh
# development helper: try_seed over a list "seeddir variant checks..." read from stdin; log to build/seed_trials.log
cd /verif
while read W V CHECKS; do
  [ -z "$W" ] && continue
  echo "=== $W/$V -> $CHECKS  $(date +%H:%M)" >> build/seed_trials.log
  check/dev/try_seed.sh /tmp/seed/$W/out/$V/patch.diff $CHECKS >> build/seed_trials.log 2>&1
done
echo "TRIALS DONE" >> build/seed_trials.log
