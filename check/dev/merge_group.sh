#!/bin/sh
# development helper: merge work group G (branch grp-G of /verif and of /repo) into the main trees
# usage: merge_group.sh G
G="$1"
set -x
cd /verif || exit 1
git merge -q --no-edit grp-$G 2>&1 | tail -5
# evidence files are rewritten by runs: on conflict take the group's version
for f in $(git diff --name-only --diff-filter=U); do
  case "$f" in evidence/*) git checkout --theirs -- "$f" && git add "$f";; esac
done
git diff --name-only --diff-filter=U
git commit -q --no-edit 2>/dev/null
# repo commits
cd /repo || exit 1
for c in $(git rev-list --reverse main..grp-$G); do
  s=$(git log -1 --format=%s $c)
  if git log main --format=%s | grep -qxF "$s"; then echo "already have: $s"; continue; fi
  git cherry-pick $c >/dev/null 2>&1 || { echo "CHERRY-PICK CONFLICT on $c: $s"; git cherry-pick --abort; continue; }
  n=$(git rev-parse --short HEAD)
  echo "picked $c -> $n: $s"
  case "$s" in "verif hook:"*)
    for f in $(git show --name-only --format= HEAD); do echo "$n $f $s" >> /verif/MANIFEST.hooks; done;;
  esac
done
