#!/bin/sh
# development helper: scratch worktree of /repo + the property text for an independent mutation sub-agent
# usage: mkseed.sh Cxx tag
ID="$1"; TAG="$2"; D=/tmp/seed/$ID-$TAG
mkdir -p $D
git -C /repo worktree add -q --detach $D/repo ${SEED_BASE:-HEAD}
python3 - "$ID" > $D/PROPERTY.json <<'PY'
import json,sys
for l in open('/verif/properties.jsonl'):
    d=json.loads(l)
    if d['id']==sys.argv[1]:
        d.pop('added_in_round',None); d.pop('source',None)
        print(json.dumps(d,indent=1))
PY
echo $D
