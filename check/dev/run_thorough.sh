#!/bin/sh
# development helper: thorough tier of the given ids, one after another, evidence untouched; summary to build/run_thorough.log
cd /verif
for c in "$@"; do
  s=$(date +%s)
  out=$(VERIF_NO_EVIDENCE=1 timeout 7200 check/run $c thorough 2>&1); rc=$?
  echo "$c rc=$rc $(( $(date +%s) - s ))s :: $(echo "$out" | grep '^VIOLATION' | head -3 | tr '\n' ' ') :: $(echo "$out" | tail -1)" >> build/run_thorough.log
  [ $rc -ne 0 ] && echo "$out" | tail -40 > build/run_thorough.$c.fail
done
echo "DONE $*" >> build/run_thorough.log
