#!/bin/sh
# development helper: run the quick checks of the given ids one after another; summary to build/run_ids.log
cd /verif
for c in "$@"; do
  s=$(date +%s)
  out=$(timeout 3600 check/run $c quick 2>&1); rc=$?
  echo "$c rc=$rc $(( $(date +%s) - s ))s :: $(echo "$out" | grep -c '^KNOWN-FINDING') known :: $(echo "$out" | grep '^VIOLATION' | head -3 | tr '\n' ' ') :: $(echo "$out" | tail -1)" >> build/run_ids.log
  [ $rc -ne 0 ] && echo "$out" | tail -30 > build/run_ids.$c.fail
done
echo "DONE $*" >> build/run_ids.log
