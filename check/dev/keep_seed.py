#!/usr/bin/env python3
"""keep_seed.py <W> <variant> <name> <detected-json>: archive a confirmed seeded change under /verif/seeded/<name>/"""
import sys, os, json, shutil, glob
W, var, name, det = sys.argv[1:5]
src = os.path.join(W, "out", var)
dst = os.path.join("/verif/seeded", name)
os.makedirs(dst, exist_ok=True)
for f in glob.glob(os.path.join(src, "*")):
    b = os.path.basename(f)
    if b.startswith("confirm-") or os.path.isdir(f) or b.endswith(".log"):
        continue
    shutil.copy(f, os.path.join(dst, b))
meta = json.load(open(os.path.join(src, "meta.json")))
prop = json.load(open(os.path.join(W, "PROPERTY.json")))["id"]
meta["property"] = prop
meta["breaks_property"] = prop
meta["confirmed_by_lead"] = json.loads(det)
json.dump(meta, open(os.path.join(dst, "meta.json"), "w"), indent=1)
print("kept", dst)
