#!/bin/sh
# development helper: confirm a seeded change in its own scratch worktree
# usage: confirm_seed.sh <W> <variant> <module> <demo-dest-relative-to-repo> <go test args for the demo, run in modules/<module> or given dir>
# prints: demo-clean=PASS/FAIL demo-patched=PASS/FAIL suite=PASS/FAIL
W="$1"; V="$2"; M="$3"; DEST="$4"; shift 4
export GOFLAGS=-mod=mod GOPROXY=off GOSUMDB=off GOTOOLCHAIN=local
R=$W/repo; O=$W/out/$V
git -C $R checkout -q -- . ; git -C $R clean -fdq
mkdir -p $(dirname $R/$DEST)
cp $O/*_test.go $R/$DEST 2>/dev/null || cp $O/$(basename $DEST) $R/$DEST
DEMODIR=$(dirname $R/$DEST)
(cd $DEMODIR && timeout 1500 go test -vet=off -count=1 . "$@" >$O/confirm-clean.log 2>&1) && echo "demo-clean=PASS" || echo "demo-clean=FAIL"
git -C $R apply $O/patch.diff || { echo "PATCH DOES NOT APPLY"; exit 1; }
(cd $DEMODIR && timeout 1500 go test -vet=off -count=1 . "$@" >$O/confirm-patched.log 2>&1) && echo "demo-patched=PASS" || echo "demo-patched=FAIL"
rm -f $R/$DEST
ok=PASS
for mm in $M; do
  (cd $R/modules/$mm && timeout 2400 go test -vet=off -count=1 ./... >$O/confirm-suite-$mm.log 2>&1) || ok=FAIL
  (cd $R/e2e && timeout 2400 go test -vet=off -count=1 -p 1 ./$mm/... >$O/confirm-e2e-$mm.log 2>&1) || ok=FAIL
done
(cd $R/simapp && timeout 1200 go build ./... >$O/confirm-simapp.log 2>&1) || ok=FAIL
echo "suite=$ok"
git -C $R checkout -q -- . ; git -C $R clean -fdq
