#!/usr/bin/env python3
"""baseline.py <repo-dir> [module ...]: run the pinned test-suite (go test -json per module) on a tree with the
verif tag OFF and report which of BASELINE.json's stable_pass tests did not pass."""
import sys, os, json, subprocess
R = sys.argv[1]
mods = sys.argv[2:] or [l.strip() for l in open('/w/out/gomods.txt') if l.strip()]
base = json.load(open('/root/.vp/BASELINE.json'))
stable = set(base['stable_pass'])
env = dict(os.environ, GOFLAGS='-mod=mod', GOPROXY='off', GOSUMDB='off', GOTOOLCHAIN='local')
res = {}
for m in mods:
    p = subprocess.run(['go', 'test', '-json', '-vet=off', '-count=1', '-p', '2', '-timeout', '40m', './...'], cwd=os.path.join(R, m), env=env,
                       stdout=subprocess.PIPE, stderr=subprocess.STDOUT, text=True, errors='replace')
    for ln in p.stdout.splitlines():
        try:
            e = json.loads(ln)
        except Exception:
            continue
        if e.get('Action') in ('pass', 'fail', 'skip') and e.get('Test'):
            res[e['Package'] + '::' + e['Test']] = e['Action']
    print('module', m, 'rc', p.returncode, flush=True)
pk = set(k.split('::')[0] for k in res)
want = [t for t in stable if any(t.startswith(mp) for mp in pk) or not sys.argv[2:]]
bad = [t for t in want if res.get(t) != 'pass']
print('stable tests considered: %d, not passing: %d' % (len(want), len(bad)))
for t in sorted(bad)[:60]:
    print('  ', t, res.get(t))
