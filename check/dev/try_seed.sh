#!/bin/sh
# development helper: apply a seeded patch to /repo, run the given checks (quick) without touching evidence, undo
# usage: try_seed.sh <patch.diff> Cxx [Cyy ...]
P="$1"; shift
cd /verif
git -C /repo status --short | grep -q . && { echo "/repo not clean"; exit 2; }
git -C /repo apply "$P" || { echo "patch does not apply"; exit 2; }
for c in "$@"; do
  VERIF_NO_EVIDENCE=1 timeout 3600 check/run $c quick 2>&1 | grep -v "^KNOWN-FINDING" | tail -4
done
git -C /repo checkout -- . ; git -C /repo clean -fdq; git -C /repo status --short
