#!/usr/bin/env python3
"""check <Cxx> [--tier quick|thorough] [--replay FILE]

One run = (1) rebuild the driver from /repo's working tree, (2) re-check the property's Coq
theorems (obligations), (3) run generated histories against the real keepers and evaluate, inside
coqc by vm_compute, (a) the correspondence of the implementation's observations with the Coq
model and (b) the property's trace predicate on the implementation's own observations,
(4) classify, search, report, write evidence.  See DESIGN.md section 2.4.
"""
import sys, os, json, subprocess, time, re, hashlib, fcntl, shutil, glob, argparse

VERIF = os.path.dirname(os.path.dirname(os.path.abspath(__file__)))
sys.path.insert(0, os.path.join(VERIF, "check"))
import props as PROPS  # noqa: E402

BUILD = os.path.join(VERIF, "build")
COQ = os.path.join(VERIF, "coq")
GOENV = dict(os.environ, GOFLAGS="-mod=mod", GOPROXY="off", GOSUMDB="off", GOTOOLCHAIN="local",
             CGO_ENABLED=os.environ.get("CGO_ENABLED", "1"))
ALLOWED_AXIOMS = {
    # stdlib axioms that may appear (named in DESIGN.md section 7); anything else is a failure
    "functional_extensionality_dep", "proof_irrelevance", "Eqdep.Eq_rect_eq.eq_rect_eq",
    "classic", "JMeq_eq", "ClassicalDedekindReals.sig_forall_dec", "ClassicalDedekindReals.sig_not_dec",
    "FunctionalExtensionality.functional_extensionality_dep", "Classical_Prop.classic",
    "ProofIrrelevance.proof_irrelevance", "PropExtensionality.propositional_extensionality",
}


def log(*a):
    print(*a, file=sys.stderr, flush=True)


def sh(cmd, timeout, cwd=None, env=None):
    t0 = time.time()
    try:
        p = subprocess.run(cmd, cwd=cwd, env=env, stdout=subprocess.PIPE, stderr=subprocess.STDOUT,
                           timeout=timeout, text=True, errors="replace")
        return p.returncode, p.stdout, time.time() - t0
    except subprocess.TimeoutExpired as e:
        out = e.stdout if isinstance(e.stdout, str) else (e.stdout or b"").decode(errors="replace")
        return 124, (out or "") + "\n[timeout after %ss]" % timeout, time.time() - t0


class Lock:
    def __init__(self, name):
        os.makedirs(BUILD, exist_ok=True)
        self.path = os.path.join(BUILD, name)

    def __enter__(self):
        self.f = open(self.path, "w")
        fcntl.flock(self.f, fcntl.LOCK_EX)
        return self

    def __exit__(self, *a):
        fcntl.flock(self.f, fcntl.LOCK_UN)
        self.f.close()


# --------------------------------------------------------------------------- building

def coq_project():
    """(Re)write _CoqProject from the .v files present and make sure a Makefile exists."""
    files = sorted(os.path.relpath(p, COQ) for p in glob.glob(os.path.join(COQ, "**", "*.v"), recursive=True)
                   if "/run/" not in p)
    txt = "-Q . Irismod\n-arg -w -arg -notation-overridden,-deprecated\n" + "\n".join(files) + "\n"
    cp = os.path.join(COQ, "_CoqProject")
    old = open(cp).read() if os.path.exists(cp) else None
    if old != txt or not os.path.exists(os.path.join(COQ, "Makefile")):
        open(cp, "w").write(txt)
        rc, out, _ = sh(["coq_makefile", "-f", "_CoqProject", "-o", "Makefile"], 120, cwd=COQ)
        if rc != 0:
            raise RuntimeError("coq_makefile failed:\n" + out)


def build_coq(targets, timeout=1500):
    coq_project()
    rc, out, dt = sh(["make", "-j%d" % (os.cpu_count() or 4), "-k"] + targets, timeout, cwd=COQ)
    return rc, out, dt


def run_translators(spec):
    """Regenerate coq/Gen/*.v that this property depends on (translator = driver sub-command)."""
    res = []
    for tr in spec.get("translators", []):
        binp = build_driver(tr["driver"])
        if binp is None:
            res.append((tr, False, "driver build failed"))
            continue
        tmp = os.path.join(BUILD, "gen-" + os.path.basename(tr["out"]) + ".tmp")
        rc, out, _ = sh([binp] + tr["args"] + ["-out", tmp], 600, env=GOENV)
        dst = os.path.join(COQ, tr["out"])
        if rc != 0 or not os.path.exists(tmp):
            # never evaluate anything against a stale generated file: without a fresh translation the
            # theorems that depend on it are simply not re-checked (reported as a broken obligation)
            if os.path.exists(dst):
                os.remove(dst)
            if os.path.exists(tmp):
                os.remove(tmp)
            res.append((tr, False, out[-2000:]))
            continue
        new = open(tmp).read()
        old = open(dst).read() if os.path.exists(dst) else None
        if new != old:
            os.makedirs(os.path.dirname(dst), exist_ok=True)
            open(dst, "w").write(new)
        os.remove(tmp)
        res.append((tr, True, ""))
    return res


_built = {}


def build_driver(name):
    if name in _built:
        return _built[name]
    sh([os.path.join(VERIF, "check", "gomod.sh")], 60)
    out_bin = os.path.join(BUILD, "bin", name)
    os.makedirs(os.path.dirname(out_bin), exist_ok=True)
    rc, out, dt = sh(["go", "build", "-tags", "verif", "-o", out_bin, "./cmd/" + name], 1500,
                     cwd=os.path.join(VERIF, "harness"), env=GOENV)
    if rc != 0:
        log("go build failed for", name, "\n", out[-4000:])
        _built[name] = None
        return None
    log("built driver %s in %.1fs" % (name, dt))
    _built[name] = out_bin
    return out_bin


# --------------------------------------------------------------------------- obligations

def check_obligations(spec, rundir):
    """Compile Props/Cxx.v (after its dependencies) and read the Print Assumptions output.  A spec may
    name further theorem files (`extra_props_files`, e.g. theorems linking this property's model to
    another group's model): they are obligations too, checked the same way, but kept in files of their
    own so that a change of the foreign model cannot take the property's other theorems down."""
    files = [spec["props_file"]] + list(spec.get("extra_props_files", []))
    vo_targets = [f[:-2] + ".vo" for f in files] + spec.get("coq_targets", [])
    rc, out, dt = build_coq(vo_targets)
    res = {"theorems": [], "make_rc": rc, "make_s": round(dt, 1), "failed": [], "axioms": {}, "props_rc": 0}
    if rc != 0:
        res["make_tail"] = out[-3000:]
    for pf in files:
        one = check_obligations_file(pf, rundir)
        res["theorems"] += one["theorems"]
        res["failed"] += one["failed"]
        res["axioms"].update(one["axioms"])
        if one["props_rc"] != 0:
            res["props_rc"] = one["props_rc"]
            res["props_tail"] = one.get("props_tail", "")
    return res


def check_obligations_file(pf, rundir):
    src = open(os.path.join(COQ, pf)).read()
    names = re.findall(r"^\s*(?:Theorem|Corollary)\s+([A-Za-z0-9_']+)", src, re.M)
    res = {"theorems": names, "failed": [], "axioms": {}}
    # Print Assumptions output: re-run coqc on the (cheap) property file into a scratch copy
    scratch = os.path.join(rundir, "props_out")
    os.makedirs(scratch, exist_ok=True)
    rc2, out2, _ = sh(["coqc", "-Q", COQ, "Irismod", "-w", "-notation-overridden,-deprecated",
                       "-o", os.path.join(scratch, os.path.basename(pf)[:-2] + ".vo"), os.path.join(COQ, pf)], 900)
    res["props_rc"] = rc2
    if rc2 != 0:
        res["props_tail"] = out2[-3000:]
        # which theorem failed: the first whose name appears after the error location is unknown; report all
        res["failed"] = names[:] if names else ["<file %s>" % pf]
        m = re.search(r'line (\d+)', out2)
        if m:
            # coqc stops at the first error: every theorem closed (Qed/Defined) above the error line was
            # accepted; the one open at the error line and all later ones were not checked
            ln = int(m.group(1))
            lines = src.split("\n")
            done, cur = [], None
            for i, l in enumerate(lines[:ln - 1]):
                mm = re.match(r"\s*(?:Theorem|Corollary)\s+([A-Za-z0-9_']+)", l)
                if mm:
                    cur = mm.group(1)
                if cur and re.search(r"\b(Qed|Defined)\.", l):
                    done.append(cur)
                    cur = None
            res["failed"] = [n for n in names if n not in done]
        return res
    # split output per Print Assumptions
    blocks = re.split(r"(?=Closed under the global context|Axioms:)", out2)
    blocks = [b for b in blocks if b.startswith("Closed") or b.startswith("Axioms:")]
    printed = re.findall(r"^\s*Print Assumptions\s+([A-Za-z0-9_'.]+?)\.?\s*$", src, re.M)
    printed = [p_.split(".")[-1] for p_ in printed]
    for i, nm in enumerate(printed):
        if i >= len(blocks):
            res["failed"].append(nm)
            continue
        b = blocks[i]
        if b.startswith("Closed"):
            res["axioms"][nm] = []
        else:
            ax = re.findall(r"^([A-Za-z0-9_.']+)\s*:", b, re.M)
            res["axioms"][nm] = ax
            bad = [a for a in ax if a not in ALLOWED_AXIOMS and a.split(".")[-1] not in ALLOWED_AXIOMS]
            if bad:
                res["failed"].append(nm)
    for nm in names:
        if nm not in printed:
            res["failed"].append(nm + " (no Print Assumptions)")
    return res


FORBIDDEN = re.compile(r"\b(Admitted|admit|Axiom|Axioms|Parameter|Parameters|Conjecture|Admit Obligations|"
                       r"Unset Guard Checking|Unset Positivity Checking|Unset Universe Checking|bypass_check|"
                       r"type-in-type|impredicative-set)\b")


def forbidden_scan():
    hits = []
    for p in glob.glob(os.path.join(COQ, "**", "*.v"), recursive=True):
        if "/run/" in p:
            continue
        txt = open(p, errors="replace").read()
        # strip comments (non-nested approximation is enough: we also strip nested by loop)
        prev = None
        while prev != txt:
            prev = txt
            txt = re.sub(r"\(\*[^*(]*(?:\*(?!\))[^*(]*|\((?!\*)[^*(]*)*\*\)", " ", txt)
        for m in FORBIDDEN.finditer(txt):
            hits.append("%s: %s" % (os.path.relpath(p, COQ), m.group(0)))
    return hits


# --------------------------------------------------------------------------- running cases

def run_driver(binp, args, out, timeout):
    rc, o, dt = sh([binp] + args + ["-out", out], timeout, env=GOENV)
    return rc, o


def gen_cases(spec, binp, tier, seed, rundir, extra_factor=1, streams=None):
    """Run the driver for every stream, sharded over processes.  Returns list of line dicts."""
    procs = []
    ncpu = os.cpu_count() or 4
    jobs = []
    for st in (streams or spec["streams"]):
        n = st[tier] * extra_factor
        per = st.get("shard", max(1, (n + ncpu - 1) // ncpu))
        sb = build_driver(st["driver"]) if st.get("driver") else binp
        if sb is None:
            continue
        a = 0
        while a < n:
            b = min(n, a + per)
            jobs.append((st["name"], a, b, sb))
            a = b
    lines = []
    errs = []
    running = []
    idx = 0
    tmo = spec.get("driver_timeout", {}).get(tier, 900 if tier == "quick" else 7200)

    def start(job):
        name, a, b, sb = job
        out = os.path.join(rundir, "gen-%s-%d-%d.jsonl" % (name, a, b))
        cmd = [sb, "gen", "-seed", str(seed), "-tier", tier, "-stream", name, "-from", str(a), "-to", str(b), "-out", out]
        return (subprocess.Popen(cmd, env=GOENV, stdout=subprocess.PIPE, stderr=subprocess.STDOUT, text=True, errors="replace"), out, job, time.time())

    pending = list(jobs)
    while pending or running:
        while pending and len(running) < ncpu:
            running.append(start(pending.pop(0)))
        time.sleep(0.05)
        still = []
        for (p, out, job, t0) in running:
            rc = p.poll()
            if rc is None:
                if time.time() - t0 > tmo:
                    p.kill()
                    errs.append("driver timeout on %s" % (job,))
                else:
                    still.append((p, out, job, t0))
                continue
            o = p.stdout.read()
            if rc != 0:
                errs.append("driver exit %d on %s: %s" % (rc, job, o[-1500:]))
            if os.path.exists(out):
                for ln in open(out):
                    ln = ln.strip()
                    if ln:
                        try:
                            lines.append(json.loads(ln))
                        except Exception as ex:  # truncated line after a crash
                            errs.append("bad line in %s: %s" % (out, ex))
        running = still
    lines.sort(key=lambda l: (l["stream"], l["idx"]))
    return lines, errs


def replay_cases(binp, files, rundir, tag="replay"):
    if not files or binp is None:
        return [], []
    out = os.path.join(rundir, tag + ".jsonl")
    rc, o = run_driver(binp, ["replay", "-in", ",".join(files)], out, 1800)
    errs = []
    if rc != 0:
        errs.append("driver replay exit %d: %s" % (rc, o[-1500:]))
    lines = []
    if os.path.exists(out):
        for ln in open(out):
            if ln.strip():
                lines.append(json.loads(ln))
    return lines, errs


RES_RE = re.compile(r"\(\s*(-?\d+)\s*,\s*(-?\d+)\s*,\s*(-?\d+)\s*\)")


def stream_spec_raw(spec, name):
    for st in spec["streams"]:
        if st["name"] == name:
            return st
    return {}


def stream_spec(spec, name):
    for st in spec["streams"]:
        if st["name"] == name:
            d = dict(spec)
            d.update({k: v for k, v in st.items() if k in ("check_module", "check_fn", "case_type", "case_imports", "coq_shard")})
            return d
    return spec


def eval_cases(spec, lines, rundir, tag):
    """Evaluate the stream's check_fn on every case inside coqc (vm_compute).
    Returns a list of (corr, prop, code) aligned with `lines`."""
    if not lines:
        return [], []
    groups = {}
    for i, l in enumerate(lines):
        groups.setdefault(l.get("stream", "main"), []).append(i)
    if len(groups) > 1 or (list(groups)[0] != "main"):
        results = [None] * len(lines)
        errs = []
        for g, idxs in groups.items():
            r, e = eval_cases_one(stream_spec(spec, g), [lines[i] for i in idxs], rundir, tag + "_" + re.sub(r"\W", "_", g))
            errs += e
            for i, ri in zip(idxs, r):
                results[i] = ri
        return results, errs
    return eval_cases_one(stream_spec(spec, "main"), lines, rundir, tag)


def eval_cases_one(spec, lines, rundir, tag):
    if not lines:
        return [], []
    shard = spec.get("coq_shard", 150)
    shards = [lines[i:i + shard] for i in range(0, len(lines), shard)]
    procs = []
    errs = []
    for k, sl in enumerate(shards):
        fn = os.path.join(rundir, "%s_cases_%d.v" % (tag, k))
        with open(fn, "w") as f:
            f.write("From Irismod Require Import %s.\nOpen Scope Z_scope.\n" % spec["check_module"])
            for extra in spec.get("case_imports", []):
                f.write(extra + "\n")
            f.write("Definition cases : list (%s) := [\n" % spec.get("case_type", "case"))
            f.write(";\n".join(l["coq"] for l in sl))
            f.write("\n].\nDefinition R := Eval vm_compute in map %s cases.\nPrint R.\n" % spec["check_fn"])
        procs.append((fn, len(sl)))
    results = []
    # run shards in parallel
    running = []
    outs = {}
    ncpu = os.cpu_count() or 4
    queue = list(enumerate(procs))
    while queue or running:
        while queue and len(running) < ncpu:
            k, (fn, n) = queue.pop(0)
            p = subprocess.Popen(["timeout", str(spec.get("coq_case_timeout", 1200)), "coqc", "-Q", COQ, "Irismod",
                                  "-w", "-notation-overridden,-deprecated", fn],
                                 cwd=rundir, stdout=subprocess.PIPE, stderr=subprocess.STDOUT, text=True, errors="replace")
            running.append((k, p, n))
        time.sleep(0.05)
        still = []
        for (k, p, n) in running:
            if p.poll() is None:
                still.append((k, p, n))
                continue
            outs[k] = (p.returncode, p.stdout.read(), n)
        running = still
    for k in range(len(procs)):
        rc, o, n = outs[k]
        if rc != 0:
            errs.append("coqc failed on shard %d: %s" % (k, o[-2000:]))
            results.extend([None] * n)
            continue
        flat = re.sub(r"\s+", " ", o)
        m = re.search(r"R = (.*?) : list", flat)
        body = m.group(1) if m else flat
        body = body.replace("%Z", "")
        trip = [(int(a), int(b), int(c)) for a, b, c in RES_RE.findall(body)]
        if len(trip) != n:
            errs.append("shard %d: parsed %d results for %d cases: %s" % (k, len(trip), n, flat[-500:]))
            results.extend([None] * n)
        else:
            results.extend(trip)
    return results, errs


# --------------------------------------------------------------------------- known findings

def load_known():
    kn = []
    p = os.path.join(VERIF, "known-findings.txt")
    if os.path.exists(p):
        for ln in open(p):
            ln = ln.strip()
            if ln.startswith("finding:"):
                m = re.match(r"finding:\s+property=(\S+)\s+key=(\S+)\s*(.*)", ln)
                if m:
                    kn.append({"property": m.group(1), "key": m.group(2), "text": m.group(3)})
    return kn


# --------------------------------------------------------------------------- main

def history_hash(l):
    return hashlib.sha256(json.dumps(l["history"], sort_keys=True).encode()).hexdigest()


def write_replay(rundir_keep, prop, name, payload):
    os.makedirs(rundir_keep, exist_ok=True)
    name = re.sub(r"[^A-Za-z0-9_.+=,@-]+", "_", name)[:180]  # classification keys may contain '/', blanks, ...
    p = os.path.join(rundir_keep, "%s-%s.json" % (prop, name))
    with open(p, "w") as f:
        f.write(json.dumps(payload) + "\n")
    return p


def shrink(spec, binp, line, rundir, want, budget=40):
    """Delta-debug the history's step list while `want(result)` keeps holding."""
    budget = int(spec.get("shrink_budget", budget))   # per-property override (default 40 replays)
    hist = line["history"]
    key = spec.get("shrink_key", "Steps")
    if not isinstance(hist, dict) or key not in hist or not isinstance(hist[key], list):
        return line
    steps = hist[key]
    n = 2
    it = 0
    best = line
    while len(steps) >= 2 and it < budget:
        chunk = max(1, len(steps) // n)
        reduced = False
        for i in range(0, len(steps), chunk):
            it += 1
            if it > budget:
                break
            cand = steps[:i] + steps[i + chunk:]
            if not cand:
                continue
            h2 = dict(hist)
            h2[key] = cand
            tmp = os.path.join(rundir, "shrink_in.jsonl")
            l2 = dict(line)
            l2["history"] = h2
            open(tmp, "w").write(json.dumps({k: l2[k] for k in ("idx", "seed", "tier", "stream", "history")}) + "\n")
            ls, errs = replay_cases(binp, [tmp], rundir, tag="shrink")
            if errs or not ls:
                continue
            rs, errs2 = eval_cases(spec, ls, rundir, "shrink")
            if errs2 or not rs or rs[0] is None:
                continue
            if want(ls[0], rs[0]):
                steps = cand
                hist = h2
                best = ls[0]
                best["history"] = h2
                n = max(n - 1, 2)
                reduced = True
                break
        if not reduced:
            if chunk == 1:
                break
            n = min(len(steps), n * 2)
    return best


def main():
    ap = argparse.ArgumentParser()
    ap.add_argument("prop")
    ap.add_argument("--tier", default=os.environ.get("VERIF_TIER", "quick"))
    ap.add_argument("--replay", default=None)
    ap.add_argument("--no-shrink", action="store_true")
    args = ap.parse_args()
    prop = args.prop
    tier = args.tier if args.tier in ("quick", "thorough") else "quick"
    seed = int(os.environ.get("VERIF_SEED", "1") or "1")
    spec = PROPS.PROPS[prop]
    t0 = time.time()
    rundir = os.path.join(BUILD, "run", "%s-%d" % (prop, os.getpid()))
    shutil.rmtree(rundir, ignore_errors=True)
    os.makedirs(rundir, exist_ok=True)
    keep = os.path.join(BUILD, "replay")
    problems = []      # broken obligations / correspondence (not yet violations)
    violations = []    # concrete failing inputs
    known_hits = []
    known = [k for k in load_known() if k["property"] == prop]

    # custom engine (properties that are not history-driven, e.g. C11/C20) plug in here
    with Lock("build.lock"):
        trs = run_translators(spec)
        for tr, ok, msg in trs:
            if not ok:
                problems.append({"kind": "translator", "what": tr["out"], "detail": msg})
        binp = build_driver(spec["driver"]) if spec.get("driver") else None
        if spec.get("driver") and binp is None:
            problems.append({"kind": "build", "what": "harness driver %s does not build against /repo" % spec["driver"]})
        for st in spec["streams"]:
            if st.get("driver") and build_driver(st["driver"]) is None:
                problems.append({"kind": "build", "what": "harness driver %s does not build against /repo" % st["driver"]})
        obl = check_obligations(spec, rundir)
        if args.tier == "thorough" or os.environ.get("VERIF_SCAN"):
            fb = forbidden_scan()
        else:
            fb = forbidden_scan()
        if fb:
            problems.append({"kind": "forbidden", "what": "forbidden vernacular in the development", "detail": fb})
    coqchk_info = None
    if tier == "thorough" and not os.environ.get("VERIF_NO_COQCHK") and obl["props_rc"] == 0 and obl["make_rc"] == 0:
        lib = "Irismod." + spec["props_file"][:-2].replace("/", ".")
        rc, out, dt = sh(["coqchk", "-silent", "-o", "-Q", COQ, "Irismod", lib], 5400)
        ax = re.findall(r"^\s+([A-Za-z0-9_.']+)\s*$", out.split("* Axioms:")[-1].split("* Constants/Inductives relying on type-in-type")[0], re.M) if "* Axioms:" in out else []
        coqchk_info = {"rc": rc, "wall_s": round(dt, 1), "axioms": ax, "tail": out[-1500:]}
        if rc != 0:
            problems.append({"kind": "theorem", "what": "coqchk " + lib, "detail": out[-1500:]})
    for nm in obl["failed"]:
        problems.append({"kind": "theorem", "what": nm, "detail": obl.get("props_tail") or obl.get("make_tail") or ""})
    if obl["make_rc"] != 0 and not obl["failed"]:
        problems.append({"kind": "theorem", "what": "make of %s" % spec["props_file"], "detail": obl.get("make_tail", "")})

    all_lines = []
    all_res = []
    errs = []
    if binp is not None:
        if args.replay:
            payload = json.loads(open(args.replay).readline())
            tmp = os.path.join(rundir, "replay_in.jsonl")
            open(tmp, "w").write(json.dumps(payload.get("case", payload)) + "\n")
            lines, e1 = replay_cases(binp, [tmp], rundir)
        else:
            corpus = sorted(glob.glob(os.path.join(VERIF, "corpus", prop, "*.jsonl")))
            lines, e1 = replay_cases(binp, corpus, rundir, tag="corpus")
            l2, e2 = gen_cases(spec, binp, tier, seed, rundir)
            lines += l2
            e1 += e2
        errs += e1
        res, e3 = eval_cases(spec, lines, rundir, "main")
        errs += e3
        all_lines, all_res = lines, res

    for e in errs:
        problems.append({"kind": "harness", "what": e[:300]})

    def classify(line, r):
        if spec.get("classify"):
            return spec["classify"](line, r)
        code = r[2]
        return stream_spec_raw(spec, line.get("stream", "main")).get("codes", spec.get("codes", {})).get(code, "code%d" % code)

    diverged = []
    for l, r in zip(all_lines, all_res):
        if r is None:
            continue
        corr, pidx, code = r
        if pidx >= 0:
            violations.append((l, r))
        elif corr >= 0 or l.get("notes"):
            diverged.append((l, r))

    out_lines = []
    exit_code = 0
    reported = []

    def report_violation(l, r, note=""):
        nonlocal exit_code
        key = classify(l, r)
        for k in known:
            if k["key"] == key:
                if key not in known_hits:
                    known_hits.append(key)
                    out_lines.append("KNOWN-FINDING: property=%s %s %s" % (prop, key, k["text"]))
                return
        if key in [x[0] for x in reported]:
            return
        l2 = l
        if not args.no_shrink and binp is not None:
            try:
                l2 = shrink(spec, binp, l, rundir, lambda ll, rr: rr[1] >= 0 and rr[2] == r[2])
            except Exception as ex:  # shrinking is best effort
                log("shrink failed:", ex)
        p = write_replay(keep, prop, "%s-seed%d-%s-%d" % (key, seed, l["stream"].replace("/", "_").replace(":", "_"), l["idx"]),
                         {"property": prop, "kind": "violation", "classification": key, "step": r[1],
                          "explain": spec.get("explain", {}).get(r[2], ""), "case": {k: l2[k] for k in ("idx", "seed", "tier", "stream", "history")},
                          "steps": l2.get("steps"), "original_idx": l["idx"]})
        reported.append((key, p))
        out_lines.append("VIOLATION property=%s replay=%s%s" % (prop, p, note))
        exit_code = 1

    for l, r in violations:
        report_violation(l, r)

    # broken obligation / correspondence without a concrete violation so far: search harder
    if (problems or diverged) and not reported and not known_hits_only(violations, known_hits):
        found = False
        if binp is not None and not args.replay and (diverged or problems):
            log("obligation/correspondence broke; searching for a failing input ...")
            l3, e4 = gen_cases(spec, binp, tier, seed + 7919, rundir + "-search" if False else rundir, extra_factor=spec.get("search_factor", 4))
            r3, e5 = eval_cases(spec, l3, rundir, "search")
            for l, r in zip(l3, r3):
                if r is not None and r[1] >= 0:
                    report_violation(l, r)
                    found = found or bool(reported)
                    if reported:
                        break
        if not reported:
            what = []
            for p_ in problems:
                what.append({"broken": p_["kind"], "name": p_["what"], "detail": str(p_.get("detail", ""))[-1500:]})
            first = None
            if diverged:
                l, r = diverged[0]
                if not args.no_shrink and binp is not None:
                    try:
                        l = shrink(spec, binp, l, rundir, lambda ll, rr: rr[0] >= 0 or bool(ll.get("notes")))
                    except Exception as ex:
                        log("shrink failed:", ex)
                first = {"correspondence": spec["check_module"] + "." + spec["check_fn"], "first_divergent_step": r[0],
                         "notes": l.get("notes"), "case": {k: l[k] for k in ("idx", "seed", "tier", "stream", "history")},
                         "steps": l.get("steps"), "diverged_cases": len(diverged)}
            p = write_replay(keep, prop, "unproved-seed%d" % seed,
                             {"property": prop, "kind": "no-failing-input-found", "broken": what, "divergence": first})
            out_lines.append("VIOLATION property=%s replay=%s no-failing-input-found" % (prop, p))
            exit_code = 1

    # evidence
    distinct = {}
    stats = {}
    for l in all_lines:
        for k, v in (l.get("stats") or {}).items():
            stats[k] = stats.get(k, 0) + v
        if l.get("nontrivial"):
            distinct[history_hash(l)] = 1
    nthm = len(obl["theorems"])
    ndis = nthm - len([f for f in obl["failed"] if f.split(" ")[0] in obl["theorems"]])
    if obl["props_rc"] != 0 or obl["make_rc"] != 0:
        ndis = min(ndis, max(0, nthm - max(1, len(obl["failed"]))))
    samples = []
    for l in all_lines[:2]:
        samples.append({"stream": l["stream"], "idx": l["idx"], "steps": (l.get("steps") or [])[:12]})
    samples.append({"obligations": obl["theorems"]})
    ev = {
        "property_id": prop, "tier": tier, "seed": seed, "level": "proof",
        "coverage": {
            "obligations": nthm, "discharged": ndis,
            "checker_cmd": "coqc 8.16.1 (make -C /verif/coq %s; Print Assumptions per theorem)" % (spec["props_file"][:-2] + ".vo"),
            "trusted_base": spec.get("trusted_base", []) + PROPS.COMMON_TRUSTED,
            "theorems": obl["theorems"], "axioms_per_theorem": obl["axioms"],
            "evaluations": len(all_lines), "distinct_nontrivial": len(distinct),
            "rule": spec.get("rule", ""), "samples": samples,
            "traces_validated_against_impl": len([1 for r in all_res if r is not None and r[0] < 0]),
            "diverged": len(diverged), "impl_property_violations": len(violations),
            "known_findings_hit": known_hits, "histograms": stats,
            "streams": [{"name": s["name"], "cases": s[tier]} for s in spec["streams"]],
            "broken_obligations": [p_["what"] for p_ in problems],
            "coqchk": coqchk_info,
        },
        "assumptions": spec.get("assumptions", []),
        "wall_s": round(time.time() - t0, 1), "violations": len(reported) + (1 if exit_code and not reported else 0),
    }
    if not args.replay and not os.environ.get("VERIF_NO_EVIDENCE"):  # a replay re-executes one stored case; it is not a coverage run
        # (VERIF_NO_EVIDENCE: development runs against deliberately broken trees must not overwrite the committed evidence)
        os.makedirs(os.path.join(VERIF, "evidence"), exist_ok=True)
        with open(os.path.join(VERIF, "evidence", prop + ".json"), "w") as f:
            json.dump(ev, f, indent=1)
    for ln in out_lines:
        print(ln)
    print("%s tier=%s seed=%d theorems=%d/%d cases=%d nontrivial=%d diverged=%d violations=%d known=%d wall=%.0fs"
          % (prop, tier, seed, ndis, nthm, len(all_lines), len(distinct), len(diverged), len(reported), len(known_hits), time.time() - t0))
    shutil.rmtree(rundir, ignore_errors=True)
    sys.exit(exit_code)


def known_hits_only(violations, known_hits):
    return False


if __name__ == "__main__":
    main()
