#!/bin/sh
# setup_cmd: build the whole framework from files on disk (offline).
V=$(cd "$(dirname "$0")/.." && pwd)
cd "$V" || exit 1
export GOFLAGS=-mod=mod GOPROXY=off GOSUMDB=off GOTOOLCHAIN=local
check/gomod.sh
mkdir -p build/bin evidence
rc=0
for d in harness/cmd/*/; do
  n=$(basename "$d")
  (cd harness && timeout 1800 go build -tags verif -o ../build/bin/"$n" ./cmd/"$n") || { echo "setup: driver $n failed to build"; rc=1; }
done
python3 - "$V" <<'PY' || rc=1
import sys
sys.path.insert(0, sys.argv[1] + "/check")
import check
# regenerate coq/Gen/*.v (translator-written model parts) before the Coq build
_done = set()
for _pid, _spec in sorted(check.PROPS.PROPS.items()):
    for _tr in _spec.get("translators", []):
        _k = (_tr["driver"], tuple(_tr["args"]), _tr["out"])
        if _k in _done:
            continue
        _done.add(_k)
        for _t, _ok, _msg in check.run_translators({"translators": [_tr]}):
            if not _ok:
                print("setup: translator for %s failed: %s" % (_t["out"], _msg[-800:]))
                sys.exit(1)
check.coq_project()
PY
(cd coq && timeout 3000 make -j16 -k >"$V/build/coq-make.log" 2>&1) || { echo "setup: coq make reported errors (see build/coq-make.log)"; tail -30 "$V/build/coq-make.log"; rc=1; }
exit $rc
