#!/bin/sh
# development helper: create an isolated workspace (worktrees of /verif and /repo) for one work group
G="$1"
mkdir -p /work/$G
git -C /verif worktree add -q -b grp-$G /work/$G/verif HEAD
git -C /repo worktree add -q -b grp-$G /work/$G/repo HEAD
echo "/work/$G ready"
