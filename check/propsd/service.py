"""C07 / C08 service"""
PROPS = {}

_RULE = ("histories of 20-60 (thorough: 20-110) abstract steps over 8 actors (2 owners, 3 providers, 2 consumers of which one is "
         "poor, 1 spare), 2 denoms, random genesis params (tax / slash fraction from {0, tiny, default, ->1}, max timeout 4-8, deposit "
         "multiple, min deposit, restricted-denom flag): define / bind (time and volume promotions, base and non-base price denom) / "
         "update / enable / disable / refund / set-withdraw / call (one-shot and repeated, 1-3 providers, fee caps around the prices) / "
         "respond (valid, wrong provider, duplicate, unknown id, malformed) / pause / start / kill / update-context (consumer, stranger, "
         "unknown id) / withdraw / rate change (incl. removal and zero) / plain transfers / keeper-level create-pause-start-kill of a "
         "module that owns contexts and records callbacks / block ends with 1-12 s; selectors are resolved against the live state; "
         "non-trivial = some batch has one request answered and one expired, or a discount applied to a created request, or a "
         "successful pause followed by a successful start; stream 'sched': one or two repeated contexts with frequency = timeout + 3..9 driven for "
         "more than three periods with pause/start pairs placed uniformly over the run (incl. the gap between expiry of batch n and the "
         "scheduled height of batch n+1), strangers' attempts, rare update/kill; distinct = by hash of the history")

_common = dict(
    driver="service",
    coq_targets=["Service/Check.vo", "Service/Proofs.vo", "Service/ProofsHist.vo", "Service/ProofsEscrow.vo", "Service/ProofsSched.vo", "Service/ProofsBatch.vo", "Service/ProofsLiab.vo", "Service/ProofsTally.vo", "Service/ProofsLive.vo", "Service/ProofsModule.vo", "Service/ProofsFresh.vo", "Service/ProofsCallback.vo", "Service/ProofsSchedule.vo", "Service/ProofsModuleHist.vo", "Service/ProofsOutcome.vo", "Service/ProofsCheck.vo", "Service/ProofsTrack.vo", "Service/ProofsBal.vo", "Service/ProofsSlash.vo", "Service/ProofsCb.vo", "Service/CheckX.vo"],
    check_module="Service.Check",
    streams=[dict(name="main", quick=80, thorough=3600), dict(name="sched", quick=20, thorough=600)],
    coq_shard=12,
    trusted_base=["request-context ids = tx hash || per-block index, request ids = context id || batch || height || index: "
                  "identified with their pre-images (the harness checks the id returned by CallService starts with the tx hash)",
                  "JSON / JSON-schema validation of inputs, outputs, results, pricing documents is an oracle (the step carries the accept bit)"],
    assumptions=["distinct context-creating transactions have distinct hashes (NoDup (create_txhs steps)); fresh_history is derived from it (fresh_history_from_distinct_hashes)",
                 "c_msvc c < 0 (no module-served service) only in request_single_outcome (hypothesis-free form; the general form request_single_outcome_with_module_services uses distinct hashes) and request_escrow_preserved_by_transactions",
                 "the exchange-rate source is the table the SetRate steps maintain (the harness installs a module service answering from it)"],
)

PROPS["C07"] = dict(_common,
    props_file="Props/C07.v",
    check_fn="check_case_C07",
    rule=_RULE,
    codes={1: "deposit-escrow-vs-bindings", 2: "request-escrow-vs-liabilities", 3: "owner-tally-vs-provider-tallies",
           4: "consumer-charge-vs-request-fees", 5: "answered-fee-destination", 6: "slash-amount"},
    explain={1: "balance of the deposit escrow differs from the sum of the bindings' deposits",
             2: "balance of the request escrow differs from fees of active requests + earned fees (some denom)",
             3: "an owner's earned-fee tally differs from the sum of the tallies of the providers it owns",
             4: "over an end-block an account moved by something other than refunds of its expired requests minus fees of the requests created for it",
             5: "a successful response did not move exactly floor(fee*tax) to the tax account and fee-tax to the provider's earned fees",
             6: "an expiry did not move exactly floor(deposit*fraction) per expired request from the deposit escrow to the tax account"},
)
PROPS["C08"] = dict(_common,
    props_file="Props/C08.v",
    check_module="Service.CheckX",
    check_fn="check_case_C08x",
    streams=[dict(name="main", quick=80, thorough=3600), dict(name="sched", quick=24, thorough=600),
             dict(name="thr", quick=12, thorough=300, check_fn="check_case_thr",
                  codes={12: "callback-vs-batch-threshold"})],
    rule=_RULE,
    codes={1: "request-outcome", 2: "rejected-step-changed-state", 3: "oneshot-context", 4: "repeated-schedule",
           5: "paused-issued-batch", 6: "control-by-non-consumer", 7: "callback-count", 8: "queue-marker-consistency", 9: "active-request-outside-running-batch",
           10: "queue-entry-at-a-past-height", 11: "running-context-without-pending-batch", 12: "callback-vs-batch-threshold"},
    explain={1: "a request changed status other than active->answered (own provider, in time) or active->expired (at its expiry height), or an id was reused, or a request outlived its expiry",
             2: "a rejected step changed an observable", 3: "a one-shot context survived its batch or issued a second batch",
             4: "a repeated running untouched context did not start batch n+1 exactly `frequency` after batch n",
             5: "a paused context issued a batch", 6: "a control message succeeded for someone who is not the consumer (or a user message on a module-owned context)",
             7: "callback invocations differ from one per completed batch (err==nil iff threshold met) / one state callback per automatic pause",
             9: "an active request whose context is not stored or whose batch is not the running current batch of its context (a batch was closed while a request still awaits its outcome)",
             8: "a queue entry disagrees with the height marker of its context (two entries for one context) or a running batch has no expiry marker",
             10: "a new-batch / expired-batch queue entry is left at a height that has already passed (the end blocker of that height did not consume it)",
             11: "a running repeated context below its total with no batch out has no pending new-batch entry at a height >= the current one and no registered expiry: its next batch never comes",
             12: "a response callback's err==nil differs from (#outputs >= the threshold the batch had when it was issued): a threshold edit while the batch was out re-judged it"},
)
