"""C07 / C08 service"""
PROPS = {}

_common = dict(
    driver="service",
    coq_targets=["Service/Check.vo", "Service/Proofs.vo", "Service/ProofsHist.vo", "Service/ProofsEscrow.vo", "Service/ProofsSched.vo", "Service/ProofsBatch.vo", "Service/ProofsLiab.vo"],
    check_module="Service.Check",
    streams=[dict(name="main", quick=128, thorough=4000)],
    coq_shard=12,
    trusted_base=["request-context ids = tx hash || per-block index, request ids = context id || batch || height || index: "
                  "identified with their pre-images (the harness checks the id returned by CallService starts with the tx hash)",
                  "JSON / JSON-schema validation of inputs, outputs, results, pricing documents is an oracle (the step carries the accept bit)"],
    assumptions=["the exchange-rate source is the table the SetRate steps maintain (the harness installs a module service answering from it)"],
)

PROPS["C07"] = dict(_common,
    props_file="Props/C07.v",
    check_fn="check_case_C07",
    rule="placeholder",
    codes={1: "deposit-escrow-vs-bindings", 2: "request-escrow-vs-liabilities", 3: "owner-tally-vs-provider-tallies",
           4: "consumer-charge-vs-request-fees", 5: "answered-fee-destination", 6: "slash-amount"},
    explain={},
)
PROPS["C08"] = dict(_common,
    props_file="Props/C08.v",
    check_fn="check_case_C08",
    rule="placeholder",
    codes={1: "request-outcome", 2: "rejected-step-changed-state", 3: "oneshot-context", 4: "repeated-schedule",
           5: "paused-issued-batch", 6: "control-by-non-consumer", 7: "callback-count"},
    explain={},
)
