"""C13 queues: begin/end block never halts; every due item handled exactly once; queue hygiene"""
PROPS = {}

PROPS["C13"] = dict(
    driver="queues",
    props_file="Props/C13.v",
    coq_targets=["Queues/Check.vo"],
    check_module="Queues.Check",
    check_fn="check_htlc",
    streams=[
        dict(name="htlc", quick=48, thorough=1200, check_module="Queues.CheckHtlc", check_fn="check_htlc", case_type="hcase", coq_shard=6,
             codes={11: "htlc.begin-block-abort", 12: "htlc.queue-hygiene", 13: "htlc.refund-not-exactly-once-at-expiry"}),
        dict(name="random", quick=64, thorough=1600, check_module="Queues.CheckRandom", check_fn="check_random", case_type="rcase", coq_shard=8,
             codes={21: "random.begin-block-abort", 22: "random.queue-hygiene", 23: "random.request-not-fulfilled-at-due-height"}),
        dict(name="farm", quick=48, thorough=1200, check_module="Queues.CheckFarm", check_fn="check_farm", case_type="fcase", coq_shard=6,
             codes={31: "farm.end-block-abort", 32: "farm.queue-hygiene", 33: "farm.pool-not-closed-exactly-once-at-end-height"}),
        dict(name="service", quick=48, thorough=1200, check_module="Queues.CheckService", check_fn="check_service", case_type="scase", coq_shard=6,
             codes={41: "service.end-block-abort", 42: "service.queue-hygiene", 43: "service.batch-not-handled-exactly-once-at-due-height"}),
        dict(name="abci", quick=12, thorough=300, check_module="Queues.CheckAbci", check_fn="check_abci", case_type="acase", coq_shard=4,
             codes={51: "abci.finalize-block-failed", 52: "abci.htlc-queue-hygiene", 53: "abci.random-queue-hygiene",
                    54: "abci.farm-queue-hygiene", 55: "abci.service-queue-hygiene"}),
    ],
    rule="per module one stream of histories interleaving object creation / modification / closing with block "
         "boundaries (block times advancing by 1..10^5 s), several objects due at one height, operations attempted in "
         "the block an object falls due; non-trivial = an object is modified or closed (or that is attempted) in the "
         "block it falls due or the block before, or >= 2 objects fall due together; distinct = by hash of the history; "
         "service: contexts of MsgCallService, oracle feeds and random oracle requests; stream abci: mixed histories of "
         "the four modules through real FinalizeBlock / Commit with signed transactions (>= 2 transactions in a block)",
    codes={},
    explain={51: "FinalizeBlock failed (or panicked): a begin / end blocker of some module aborted in the real ABCI run",
             52: "ABCI run: the HTLC expiry queue and the open contracts are not in bijection after a committed block",
             53: "ABCI run: a random request entry lies behind the committed height, or a duplicate key",
             54: "ABCI run: farm active-pool queue hygiene fails on the committed state",
             55: "ABCI run: service batch queues / markers / running contexts hygiene fails on the committed state",
             41: "the service end-blocker aborted (e.g. a module callback dereferenced a nil error)",
             42: "service batch queues: duplicate entry, entry behind the current height, entry without context or height marker, marker without entry, a context in both queues, or a running context in neither",
             43: "a batch entry vanished outside the end-blocker of its height, or the end-blocker handled a new batch without starting/skipping it and scheduling its expiration, or an expiration without completing the batch",
             31: "the farm end-blocker aborted",
             32: "farm active-pool queue: duplicate entry, entry behind the current height, entry without a pool ending at that height, or a live pool without its entry",
             33: "a farm pool that had left the queue came back or changed its end height, or the end-blocker left / mis-drained an entry of its height, or drained a pool without refunding it",
             21: "the random begin-blocker aborted in a block whose time is not 0",
             22: "random request queue: an entry behind the current height (never drained), or an entry lost / appearing outside its block",
             23: "a drained plain request has no random number of that height, or a drained oracle request was not handed to the service module",
             11: "the HTLC begin-blocker aborted", 12: "HTLC expiry queue and open contracts are not in bijection at their expiration heights",
             13: "an HTLC was refunded in a block other than its expiration height, or a closed HTLC changed again"},
    trusted_base=["ids (SHA-256) are interned: equal bytes <-> equal number; the model never hashes",
                  "money-dependent branch outcomes (bank, asset limits, secrets, provider prices) enter the queue models as boolean inputs "
                  "read off the implementation's behaviour; the amounts themselves belong to C03-C08; the two hypotheses this leaves "
                  "(farm: duration >= 0, no refund fails in updatePool; htlc: no refund fails) are theorems about the full farm / HTLC "
                  "models (Queues/LinkFarm.v, Queues/LinkHtlc.v), which are tied to the code by the checks of C05/C06 and C03/C04",
                  "the ABCI stream evaluates abort + hygiene only (no model correspondence inside a block)"],
    assumptions=["block heights increase by one; block time > 0 (unix seconds)"],
)
