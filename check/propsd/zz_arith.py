"""Differential validation of coq/Base/Dec.v against cosmossdk.io/math: a stream that any
property whose model uses LegacyDec arithmetic can append to its own streams."""
ARITH_STREAM = dict(name="arith", driver="arith", quick=40, thorough=2000,
                    check_module="Base.DecCheck", check_fn="check_arith", case_type="arith_case")
PROPS = {}
