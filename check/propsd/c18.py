"""C18 random"""
PROPS = {}

PROPS["C18"] = dict(
    driver="random",
    props_file="Props/C18.v",
    coq_targets=["Random/Check.vo"],
    check_module="Random.Check",
    check_fn="check_ccase",
    case_type="ccase",
    coq_shard=18,          # ~30 kB of Coq per case: small shards keep every coqc short
    coq_case_timeout=3000,
    streams=[dict(name="main", quick=200, thorough=7000),
             dict(name="zerotime", quick=24, thorough=600),
             dict(name="genesis", quick=48, thorough=1400)],
    rule="histories of 10-40 (thorough: 10-100) operations plus a tail of blocks: random requests by 5 consumers "
         "(intervals 0-11, a few far ones up to 2^62 that stay pending, a few around 2^63 / 2^64 that are rejected; plain and oracle-seeded; ~6% malformed; a requester asks twice in one block in ~10% of its requests), block "
         "boundaries with a chosen header (time step 0, 1-7 s or up to 2^36; start time 1, small, 1.7e9, 2^33 or up to 2^37; "
         "app hash from a pool incl. empty and repeated), provider responses (valid seed, malformed, error result, wrong provider), "
         "transfers emptying a consumer; in a quarter of the histories the module's pending queue goes through ExportGenesis -> JSON -> wipe -> "
         "InitGenesis one or more times (mostly right after two requesters, and one requester from two blocks, have "
         "become pending for one height); stream zerotime: block times around 0; stream genesis: the history starts "
         "from (and later loads more of) pending requests put in through InitGenesis - oracle requests whose service "
         "context id the service module does not know (40-byte or short), so that they cannot be started when they "
         "fall due, and plain ones - mixed with ordinary requests, always with restarts; "
         "non-trivial = at least two requests are fulfilled in one block; distinct = by hash of the history",
    codes={1: "not-fulfilled-on-time", 2: "result-without-due-request", 3: "read-back-changed",
           4: "value-not-20-digit-unit-decimal", 5: "pending-queue-wrong", 6: "value-depends-on-more",
           7: "oracle-not-fulfilled-on-seed", 8: "oracle-failure-not-dropped", 9: "life-cycle-violated"},
    explain={1: "a request made at height h with interval n has no result after the begin block of height h+n+1",
             2: "a result exists for a request that is not yet due (or can never fall due)",
             3: "a result read back by its request id differs from the first read",
             4: "the stored value is not '0.' followed by exactly 20 decimal digits",
             5: "the pending queue is not exactly the set of requests not yet due",
             6: "two fulfilments with equal app hash, block time, requester and seed produced different values",
             7: "an oracle request was not fulfilled in the step in which the seed response was accepted",
             8: "an oracle request that failed or timed out kept its pending entry or produced a result",
             9: "queue / result / oracle-request views of a request differ from the proven life cycle (Spec.v, "
                "theorem request_life_cycle): pending under height+interval until the begin block after it, then "
                "fulfilled with PRNG(block time, app hash, requester[, seed]) or started/dropped"},
    trusted_base=["SHA-256 as an oracle: the request id is identified with its pre-image (height, consumer) and the harness "
                  "checks real id = sha256(pre-image); the four PRNG digests are recomputed by the harness from the inputs "
                  "rng.go hashes and handed to the model as a table",
                  "the service module is the environment of the oracle path: its calls into the random keeper are recorded "
                  "through the add-only hook modules/service/keeper/export_verif_random.go"],
    assumptions=["block time != 0 (unix seconds)", "the request's requester makes at most one request per block (the id scheme's limit)",
                 "height + interval < 2^63 (larger intervals are rejected)", "service context ids are not reused"],
)
