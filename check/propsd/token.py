"""C09 / C10 token"""
PROPS = {}

_TRUSTED = [
    "Cosmos SDK bank keeper modelled as ledger + supply (balances and supplies of the whole universe are observed after every step)",
    "the EVM behind types.EVMKeeper is the harness's journalled ERC20 double (harness/cmd/token/evm.go): ABI-decoded "
    "mint / burn / balanceOf, nonce bump on creation, snapshot / restore per transaction; for the swap-to-native hook the harness plays the "
    "contract's own part (burn of the caller's balance + SwapToNative log), which is Solidity code outside the Go module",
    "calcFeeFactor (floating point) enters the model as the table coq/Gen/TokenFeeFactor.v regenerated on every run by "
    "running the Go function for lengths 1..64",
]

PROPS["C09"] = dict(
    driver="token",
    props_file="Props/C09.v",
    coq_targets=["Token/Check.vo"],
    check_module="Token.Check",
    check_fn="check_case_C09",
    coq_shard=20,
    translators=[dict(driver="token", args=["feefactor"], out="Gen/TokenFeeFactor.v")],
    streams=[dict(name="main", quick=256, thorough=5000)],
    rule="histories of 8-30 (thorough: 8-68) messages issue / edit / mint / burn / transfer-owner / update-params by 4 actors "
         "(owners and strangers, ~7% malformed), 1-4 tokens, scales 0..18, initial supply up to 10^11, maximum up to 2^64-1, "
         "mint amounts at the remaining room and room+-1 and at 2^64 / 2^128 / 2^200 / 2^255 (-1), burns of 2^128 / 2^255, burns of half a unit / one min unit / everything, edits of the maximum at "
         "floor(supply/10^scale) and +-1 and at the initial supply +-1, tax / mint-fee ratio / base fee over {0, default, 1, odd, 2^195-1, 2^195}, fee denom = the native symbol / another registered symbol / a min-unit-only name / an unregistered name; "
         "a quarter of the histories contain a token whose SYMBOL equals another token's MIN UNIT (other owner) with cross-token mints / burns / edits / "
         "transfers through the shared string; a fifth of the histories hand a token with symbol s to a DERIVED 21-23-byte address actor_i++p while a victim owns the symbol p++s "
         "(the owner-index keys 0x03||owner||symbol of the two pairs are the same bytes) and let actor i try edits / transfers of the victim's token; "
         "non-trivial = a mint or edit is attempted after a burn, or by a non-owner, or after a transfer of ownership",
    codes={1: "token-supply-exceeds-cap", 2: "token-identity-rebound", 3: "token-non-owner-governs", 4: "token-non-mintable-minted",
           5: "token-burn-tally", 6: "token-fee-split", 7: "token-failed-message-changed-state"},
    explain={1: "the bank supply of a token's min unit exceeds max_supply * 10^scale after the step",
             2: "a symbol or min unit is bound twice or its binding changed",
             3: "a token record changed, or its supply grew, without a successful message of its owner",
             4: "a mint of a non-mintable token succeeded",
             5: "the burned tally or the supply did not change by exactly the burned amount",
             6: "the fee paid by the owner is not floor(fee*tax) to the fee collector + the rest burned, or the module account kept something",
             7: "a rejected message changed the observed state"},
    trusted_base=_TRUSTED,
    assumptions=["the fee token is the native token (symbol = min unit = stake, scale 0), whose maximum the harness genesis raises to 2^64-1",
                 "message amounts below 2^256 (an sdk.Coin cannot carry more); mints / burns up to 2^255 are generated and refused, not aborted"],
)

PROPS["C10"] = dict(
    driver="token",
    props_file="Props/C10.v",
    coq_targets=["Token/Check.vo", "Base/DecCheck.vo"],   # DecCheck: the shared arith stream attached to C10 by props.py
    check_module="Token.Check",
    check_fn="check_case_C10",
    coq_shard=20,
    translators=[dict(driver="token", args=["feefactor"], out="Gen/TokenFeeFactor.v")],
    streams=[
        dict(name="lossless", quick=4800, thorough=100000, check_fn="check_lossless", case_type="fncase", coq_shard=320,
             codes={4: "token-lossless-burn-out-of-range", 5: "token-lossless-mint-exceeds-worth", 6: "token-lossless-ratio-one-inexact"}),
        dict(name="erc20", quick=224, thorough=3200),
    ],
    rule="stream lossless: LossLessSwap called as a pure function on (amount up to 2^128 incl. small, multiples of 10^|scale difference| +-1 and "
         "half-way cases of the 18th digit; ratio 1, 0.4, integers 2..10, random below / above 1 with 18 decimals; all scale pairs 0..18), "
         "non-trivial = the exact output has a fractional part; stream erc20: histories of 12-34 (thorough: 12-72) messages: issue, deploy ERC20 "
         "(authority / stranger / unregistered min unit), swap to / from ERC20 (own and foreign receivers, Ethereum-only holders, blocked receiver, "
         "amounts at balance and balance+1, ERC20 disabled, EVM double misbehaving in 8 ways), ERC20 implementation upgrades (authority / stranger / bad address / reverting beacon), swap-to-native through the EVM PostTxProcessing hook "
         "(receipts with the SwapToNative log of the bound contract after its simulated burn, plus foreign logs; zero amounts, invalid / blocked receivers; "
         "half of the hook steps are ONE EVM transaction with 2-4 SwapToNative events of the same or different bound tokens, different receivers, interleaved with Transfer logs and events of unbound contracts, all-or-nothing), fee-token swaps over a random swap registry (also offers of 2^190..2^255, where LegacyDec overflows and the message aborts), mint; a quarter of the histories contain a token whose SYMBOL equals another token's MIN UNIT (different scales, both "
         "with an ERC20 contract, a ratio-1 registry entry targeting the clashing min unit) so that symbol-first and min-unit lookups disagree; "
         "burn, update-params; non-trivial = at least one successful and one failed conversion, or a successful conversion and a successful fee swap",
    codes={1: "token-to-erc20-not-conserved", 2: "token-from-erc20-not-conserved", 3: "token-failed-conversion-changed-state",
           4: "token-swap-burn-out-of-range", 5: "token-swap-mint-exceeds-worth", 6: "token-swap-ratio-one-inexact",
           7: "token-swap-mints-unregistered-denom", 8: "token-admin-message-moved-value"},
    explain={1: "swap to ERC20: native burn, sender debit and ERC20 credit are not all exactly the converted amount",
             2: "swap from ERC20 / swap-to-native hook: ERC20 burn, native mint and receiver credit are not all exactly the converted amount",
             3: "a failed conversion / message changed the native or the ERC20 side",
             4: "fee-token swap burned a negative amount or more than offered",
             5: "fee-token swap minted more than the burned amount is worth at the configured ratio and scales",
             6: "fee-token swap at ratio 1 is not exact or the dust is not below one output unit",
             7: "fee-token swap minted a denom that is no token's min unit",
             8: "a successful DeployERC20 / UpgradeERC20 changed a bank supply, a bank balance or an ERC20 balance"},
    trusted_base=_TRUSTED,
    assumptions=["a transactional EVM (state rolled back with the transaction), which is what the double provides and what a real EVM keeper is",
                 "positive ratios; scales 0..18; pure-function stream: amounts up to 2^128, ratios below 2^70 (no LegacyDec overflow); message stream: offers up to 2^255, "
                 "where the LegacyDec overflow panic of LossLessSwap is modelled as an abort (lossless_overflows)",
                 "an ERC20 implementation upgrade moves no balances (Solidity code outside the module)"],
)
