"""C05 / C06 farm"""
PROPS = {}

_RULE = ("histories of 10-60 (thorough: 10-130) operations by 4 actors (creator + 3 farmers, any of whom may try anything) over "
         "1-3 pools with 1-2 reward denominations (sometimes equal to a staked token), arbitrary integer stakes (1..10^20) and "
         "rewards per block (1..10^14), several messages per block, empty blocks, start heights in the future, natural expiry "
         "(every block is really executed), destroy, top-ups and per-block changes, operations in and around the pool's last "
         "block, ~4% malformed messages; about 90% of the farmer / creator operations are re-targeted when they are executed (a farmer "
         "who has stake, a pool that is running, the creator of an editable pool) so that most operations succeed, the rest stay "
         "blind; every history is followed by the full-withdrawal epilogue (every farmer unstakes "
         "everything from every pool). non-trivial = at least two farmers hold stake in one pool at the same time and some "
         "reward-per-share * stake has a fractional part; distinct = by hash of the history. One history in five funds an exact "
         "multiple of the per-block reward, starts now and is staked from its first block on; operations are aimed at exactly "
         "the pool's last block after idle blocks. Stream 'manypools': 11-12 pools (farm-2..farm-9 tiny and idle) so that pool "
         "ids are string prefixes of one another, then 22-37 operations on farm-1, farm-10, farm-11 and the last pool")

_TRUST = ["coinswap (liquidity-token validation) is used as set up by the harness: two pools lpt-1, lpt-2",
          "community-pool farms (MsgCreatePoolWithCommunityPool / HandleCreateFarmProposal) are not modelled and cannot be exercised: "
          "the e2e / simapp application does not register the farm escrow_collector module account, so both entry points abort "
          "in the bank keeper (module account escrow_collector does not exist); a refund always goes to the pool's creator account"]

PROPS["C05"] = dict(
    driver="farm",
    props_file="Props/C05.v",
    coq_targets=["Farm/Check.vo", "Base/DecCheck.vo"],   # DecCheck: the shared arith stream attached to C05 by props.py
    check_module="Farm.Check",
    check_fn="check_case_C05",
    streams=[dict(name="main", quick=122, thorough=4000), dict(name="manypools", quick=6, thorough=160)],
    coq_shard=8,
    rule=_RULE,
    codes={1: "stakes-do-not-sum-to-pool-total", 2: "escrow-differs-from-stakes-plus-budgets",
           3: "unstake-insufficient-reward-collector", 4: "unstake-principal-or-balance-wrong",
           5: "unstake-rewards-differ-from-accrued", 6: "unstake-within-stake-failed"},
    explain={1: "the sum of the farmers' recorded stakes differs from the pool's recorded total",
             2: "the farm module account does not hold exactly all staked tokens plus all remaining reward budgets",
             3: "an unstake of at most the recorded stake was rejected and the reward collector holds less than the farmer's accrued reward",
             4: "a successful unstake did not credit exactly the amount plus the returned rewards, or left a wrong stake record",
             5: "the rewards returned by a successful unstake differ from floor(reward per share * stake) - debt",
             6: "an unstake of at most the recorded stake was rejected (reward collector not short)"},
    trusted_base=_TRUST,
    assumptions=["amounts stay far below the 256-bit range of sdkmath.Int (the generator's balances are 10^30)",
                 "theorems: message senders are not module accounts; at genesis the farm module account is empty and the reward collector non-negative",
                 "the model follows the fix commits of the farm group (CaclRewards debt rounding, AdjustPool end height) and of the genesis group (MsgStake rejects a zero amount)"],
)

PROPS["C06"] = dict(
    driver="farm",
    props_file="Props/C06.v",
    coq_targets=["Farm/Check.vo"],
    check_module="Farm.Check",
    check_fn="check_case_C06",
    streams=[dict(name="main", quick=122, thorough=4000), dict(name="manypools", quick=6, thorough=160)],
    coq_shard=8,
    rule=_RULE,
    codes={10: "pool-or-rule-vanished", 11: "budget-total-wrong", 12: "remaining-not-refunded-at-end",
           13: "released-more-than-remaining", 14: "release-not-per-block-times-span-while-staked",
           15: "balance-change-not-as-stated", 16: "reward-collector-change-wrong",
           17: "remaining-does-not-cover-schedule", 18: "payout-outside-fair-share-bound",
           19: "payout-differs-from-block-by-block-share"},
    explain={10: "a pool or one of its reward rules disappeared",
             11: "a rule's total budget changed by something other than a top-up (or a new pool's budget is not what was funded)",
             12: "after the pool's end block / destroy the remaining budget is not zero (refund missing)",
             13: "more was released than remained",
             14: "remaining budget changed by something other than -(per block * blocks while staked) + top-up",
             15: "an actor's balance changed by something other than stake / unstake / rewards / budget / fee / the refund of exactly the remaining budget to the creator",
             16: "the reward collector's balance changed by something other than released - paid",
             17: "a live pool's remaining budget no longer covers per-block * (end - last distribution)",
             18: "a farmer's cumulative payout differs from the exact stake-weighted share by n interactions or more",
             19: "a farmer's cumulative payout differs by n interactions or more from the block-by-block stake-weighted share "
                 "that the harness computes independently from the stakes observed at the start of every block"},
    trusted_base=_TRUST,
    assumptions=["amounts stay far below the 256-bit range of sdkmath.Int (the generator's balances are 10^30)",
                 "theorems: message senders are not module accounts; at genesis the farm module account is empty and the reward collector non-negative",
                 "payout_close_to_fair_share_on_histories is about model histories (ProRata.v projects a history onto the one-farmer / one-rule event abstraction); "
                 "its hypotheses: the pool exists, the rule is its j-th, the farmer holds no stake at the start of the history"],
)
