"""C16 parameters of coinswap, farm, htlc, service, token"""
PROPS = {}

_MOD = {1: "coinswap", 2: "farm", 3: "htlc", 4: "service", 5: "token"}
_codes = {}
_explain = {}
for _b, _m in _MOD.items():
    _codes[_b * 100 + 91] = _m + ".params.changed-by-non-authority"
    _codes[_b * 100 + 92] = _m + ".params.invalid-set-stored"
    _codes[_b * 100 + 99] = _m + ".abort-under-accepted-params.unexplained"
    _codes[_b * 100 + 98] = _m + (".end-block-abort-under-accepted-params" if _m == "service" else ".begin-block-abort-under-accepted-params")
    _explain[_b * 100 + 98] = "the module's begin / end blocker aborted (chain halt) under an accepted parameter set but not under the defaults (the model does not predict this abort)"
    _explain[_b * 100 + 91] = "a MsgUpdateParams not signed by the authority changed the stored parameters"
    _explain[_b * 100 + 92] = "a parameter set that Params.Validate() does not accept was stored"
    _explain[_b * 100 + 99] = "an operation aborted under an accepted parameter set but not under the defaults (the model does not predict this abort)"
_why = {
    101: "coinswap.pool_creation_fee.nil-amount", 102: "coinswap.tax_rate.nil", 103: "coinswap.pool_creation_fee.dec-overflow",
    104: "coinswap.pool_creation_fee.invalid-denom", 105: "coinswap.tax_rate.negative-tax", 106: "coinswap.tax_rate.tax-exceeds-fee",
    111: "coinswap.fee.nil", 112: "coinswap.fee.sell-division-by-zero", 121: "coinswap.fee.nil", 122: "coinswap.fee.buy-division-by-zero",
    123: "coinswap.fee.negative-sold-amount", 131: "coinswap.unilateral_liquidity_fee.nil", 132: "coinswap.add-unilateral.zero-reserve",
    133: "coinswap.unilateral_liquidity_fee.sqrt-of-negative", 141: "coinswap.unilateral_liquidity_fee.nil", 142: "coinswap.remove-unilateral.zero-lpt",
    201: "farm.pool_creation_fee.nil-amount", 202: "farm.tax_rate.nil", 203: "farm.pool_creation_fee.dec-overflow",
    204: "farm.pool_creation_fee.invalid-denom", 205: "farm.tax_rate.negative-tax", 206: "farm.tax_rate.tax-exceeds-fee",
    301: "htlc.asset.invalid-denom", 311: "htlc.min_swap_amount.nil", 312: "htlc.max_swap_amount.nil", 313: "htlc.supply_limit.nil",
    314: "htlc.supply_limit.negative", 315: "htlc.time_based_limit.nil", 316: "htlc.time_based_limit.negative", 317: "htlc.fixed_fee.nil", 318: "htlc.fixed_fee.int-overflow",
    401: "service.min_deposit_multiple.negative", 402: "service.min_deposit_multiple.int-overflow", 411: "service.service_fee_tax.nil", 412: "service.service_fee_tax.dec-overflow",
    413: "service.service_fee_tax.negative-tax", 421: "service.slash_fraction.nil", 422: "service.slash_fraction.dec-overflow",
    423: "service.slash_fraction.negative-slash", 424: "service.base_denom.invalid",
    501: "token.issue_token_base_fee.nil-amount", 502: "token.issue.zero-fee-factor", 503: "token.issue_token_base_fee.dec-overflow",
    504: "token.issue_token_base_fee.invalid-denom", 505: "token.issue_token_base_fee.dec-overflow", 512: "token.token_tax_rate.nil",
    513: "token.issue_token_base_fee.dec-overflow", 515: "token.token_tax_rate.negative-tax", 516: "token.token_tax_rate.tax-exceeds-fee",
    521: "token.mint_token_fee_ratio.nil", 522: "token.mint_token_fee_ratio.dec-overflow", 523: "token.mint_token_fee_ratio.negative-fee",
    524: "token.mint_token_fee_ratio.dec-overflow", 532: "token.token_tax_rate.nil", 533: "token.token_tax_rate.dec-overflow",
    535: "token.token_tax_rate.negative-tax", 536: "token.token_tax_rate.tax-exceeds-fee",
}
for _c, _k in _why.items():
    _codes[_c] = _k
    _explain[_c] = ("under a parameter set that the module accepted, an operation that ends in success or an ordinary rejection under the "
                    "default parameters aborted (panic); cause named by the model: " + _k)

PROPS["C16"] = dict(
    driver="params",
    props_file="Props/C16.v",
    coq_targets=["Params/Check.vo", "Params/Proofs.vo", "Params/Sound.vo", "Params/Pinned.vo"],
    check_module="Params.Check",
    check_fn="check_case",
    translators=[dict(driver="params", args=["defaults"], out="Gen/ParamsDefaults.v")],
    streams=[dict(name="coinswap", quick=80, thorough=2500), dict(name="farm", quick=70, thorough=2000),
             dict(name="htlc", quick=85, thorough=2500), dict(name="service", quick=85, thorough=2500),
             dict(name="token", quick=75, thorough=2000)],
    rule="the first 26..59 cases of each stream are a deterministic boundary sweep (the default set with one field set to each value of a "
         "fixed table: 0, 10^-18, 1-10^-18, 1, 1+10^-18, 2, -1, absent, 2^300, -2^200 for rates; 0, 1, -1, absent, 2^256-1, 2^255, 2^254 for amounts; "
         "invalid denoms; lock / timeout / multiple extremes), sent by the authority or through genesis and followed by one instance of every "
         "operation kind; the other cases: one module, one generated parameter set (each field: default, zero, boundary, just outside the valid range, "
         "extreme magnitude, negative, absent = really nil through raw protobuf bytes; mostly one field varied, sometimes 2-3), "
         "submitted as MsgUpdateParams by the authority (60%), by a stranger (20%) or through the module's InitGenesis (20%); then 4-12 "
         "operations of the module executed under the stored set and, identically, on a second chain under the defaults; "
         "non-trivial = the set differs from the default in a field a handler reads (and, when accepted, operations were run); "
         "distinct = by hash of the history",
    codes=_codes,
    explain=_explain,
    trusted_base=["the denom / address / beacon classes of the model's vocabulary stand for the fixed strings listed in harness/cmd/params/main.go",
                  "the EVM behind the token keeper is the harness's mock (deploy with a beacon, mint and burn within balances succeed); no exchange-rate feed is registered for the service module",
                  "coq/Params/Pinned.v (validators of the pinned commit, used only by the *_refuted_at_pinned_commit witnesses) was tied to the code by the runs of rounds 1-2, not by this run",
                  "256-bit overflow of sdkmath.Int arithmetic on operation inputs is outside the model except where a parameter is a factor "
                  "(service price * multiple, htlc fixed fee + minimum): inputs are otherwise kept below 2^100"],
    assumptions=["operation inputs (amounts, reserves, balances) are below 2^100 (service bind price: up to 2^200); parameter values range over the whole encodable domain"],
)
