"""C14 nft"""
PROPS = {}

PROPS["C14"] = dict(
    driver="nft",
    props_file="Props/C14.v",
    coq_targets=["Nft/Check.vo"],
    check_module="Nft.Check",
    check_fn="check_case",
    streams=[dict(name="main", quick=320, thorough=8000), dict(name="abci", quick=48, thorough=1200)],
    coq_shard=20,
    coq_case_timeout=3600,
    rule="histories of 12-35 (thorough: 12-75) steps = issue-class / mint / edit / transfer (plain, with metadata changes, "
         "with every field set to the do-not-modify sentinel, to self) / burn / class hand-over messages by 4 actors (owners, "
         "class creators and strangers) and block boundaries, over up to 5 classes drawn with every combination of the "
         "mint-restricted / update-restricted flags and 5 token ids per class (so ids are re-minted while in use and after a "
         "burn); ~8% malformed (bad / reserved class ids, bad token ids, bad addresses, over-long URI, data that is not JSON); "
         "non-trivial = on some object (a token; a class for hand-over; a mint-restricted class for minting) a non-entitled "
         "actor attempted an operation and the entitled one succeeded with one; distinct = by hash of the history; stream 'abci' executes histories of the same generator through the real ABCI surface "
         "(InitChain, FinalizeBlock with one SIGNED transaction per message through the ante handlers, Commit; observations on the "
         "committed state; a message whose sender is not an address cannot be signed and counts as rejected)",
    codes={1: "nft.owner-not-unique", 2: "nft.supply-tokens-balances-differ", 3: "nft.owner-authority",
           4: "nft.mint-restriction-or-id-reuse", 5: "nft.update-restricted-metadata-changed", 6: "nft.class-authority",
           7: "nft.failed-step-changed-state"},
    explain={1: "a token is listed twice, has no valid owner, is listed under somebody who is not its owner, or belongs to no class",
             2: "the reported supply of a class differs from the number of its tokens or from the sum of the owners' balances (or the module's own invariant is broken)",
             3: "a transfer / edit / burn succeeded for somebody who is not the owner or did something other than asked, or a token's owner / metadata changed / the token disappeared without its owner's doing",
             4: "a mint succeeded into a mint-restricted class for a non-creator, or under an id in use, or did not create exactly the token asked for, or a token appeared without a mint",
             5: "the metadata of a token of an update-restricted class changed",
             6: "a class disappeared, changed its flags or descriptive fields, changed hands without a hand-over by its creator, or an id was issued twice",
             7: "a failed message or a block boundary changed classes, tokens, supplies or the owners' lists"},
    trusted_base=["the SDK's x/nft keeper (class / NFT / owner / owner-index / supply stores) is modelled in Nft/Model.v, not verified; "
                  "its agreement with the model is observed after every step (Collection, Supply, NFTsOfOwner, Denoms queries and the raw owner record)"],
    assumptions=["histories of fewer than 2^64 steps (hypothesis of supply_counter_no_wrap and model_passes_check: the x/nft supply counter is a uint64, modelled with its wrap-around)"],
)
