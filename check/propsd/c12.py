"""C12 export / import of every module (work group genesis)"""
PROPS = {}

_STREAMS = [
    # name, quick, thorough, Coq module, check fn, clause code -> classification key
    ("record", 60, 1500, "Genesis.Record", "check_record", {
        1: "record-export-does-not-validate", 2: "record-import-panics",
        32: "record-second-export-loses-records", 42: "record-record-lost-on-import",
        31: "record-ids-change-on-import", 41: "record-ids-change-on-import"}),
    ("htlc", 60, 1500, "Genesis.Htlc", "check_htlc", {
        1: "htlc-export-does-not-validate", 2: "htlc-import-panics", 3: "htlc-second-export-differs",
        4: "htlc-query-differs-after-import", 5: "htlc-expiration-queue-not-rebuilt"}),
]

PROPS["C12"] = dict(
    driver="genesis",
    props_file="Props/C12.v",
    coq_targets=["Genesis/Check.vo"],
    check_module="Genesis.Check",
    check_fn="check_all",
    streams=[dict(name=n, quick=q, thorough=t, check_module=m, check_fn=f, codes=c, coq_shard=40)
             for (n, q, t, m, f, c) in _STREAMS],
    rule="per module stream: a generated history of that module's messages (and of the modules it depends on) "
         "with block boundaries on chain A; then ExportGenesis(A) -> ValidateGenesis -> InitGenesis into the wiped "
         "module store of a fresh chain B (bank and auth state of A imported first) under recover() -> "
         "ExportGenesis(B) -> module state / gRPC queries on A and B; both as-is and after the module's own "
         "PrepForZeroHeightGenesis; non-trivial = the exported state holds at least one open time-bound object and "
         "one emptied balance or tally, in the module's own terms (see notes/genesis.md); distinct = by hash of the history",
    codes={},
    explain={},
    trusted_base=["hash-derived identifiers are modelled by their pre-images (record) or interned with numbers that "
                  "respect their byte order (all other modules); the harness checks the pre-image claim with SHA-256",
                  "the KV store iterates keys in ascending byte order (cosmossdk.io/store)"],
    assumptions=["InitGenesis is run on an empty module store (chain B's store of the module is wiped first)"],
)
