"""C12 export / import of every module (work group genesis).

One stream per module; the stream descriptions live in check/propsd/c12_streams/<module>.py
(STREAM = dict(name, quick, thorough, check_module, check_fn, codes, nontrivial))."""
import glob as _glob, os as _os, importlib.util as _ilu

PROPS = {}

_ORDER = ["record", "htlc", "mt", "farm", "oracle", "random", "token", "coinswap", "nft", "service", "all"]
_streams = []
for _p in sorted(_glob.glob(_os.path.join(_os.path.dirname(_os.path.abspath(__file__)), "c12_streams", "*.py"))):
    _spec = _ilu.spec_from_file_location("c12_stream_" + _os.path.basename(_p)[:-3], _p)
    _m = _ilu.module_from_spec(_spec)
    _spec.loader.exec_module(_m)
    _streams.append(_m.STREAM)
_streams.sort(key=lambda s: _ORDER.index(s["name"]) if s["name"] in _ORDER else 99)

PROPS["C12"] = dict(
    driver="genesis",
    props_file="Props/C12.v",
    coq_targets=["Genesis/Check.vo"],
    extra_props_files=["Props/C12Link.v"],
    check_module="Genesis.Check",
    check_fn="check_all",
    streams=[dict(coq_shard=40, **{k: v for k, v in s.items() if k != "nontrivial"}) for s in _streams],
    rule="per module stream: a generated history of that module's messages (and of the modules it depends on) "
         "with block boundaries on chain A; then ExportGenesis(A) -> ValidateGenesis -> InitGenesis into the wiped "
         "module store of a fresh chain B (bank and auth state of A imported first) under recover() -> "
         "ExportGenesis(B) -> module state / gRPC queries on A and B; both as-is and after the module's own "
         "PrepForZeroHeightGenesis; non-trivial = the exported state holds at least one open time-bound object and "
         "one emptied balance or tally, in the module's own terms: "
         + "; ".join("%s: %s" % (s["name"], s.get("nontrivial", "")) for s in _streams)
         + "; distinct = by hash of the history",
    codes={},
    explain={},
    trusted_base=["hash-derived identifiers are modelled by their pre-images (record) or interned with numbers that "
                  "respect their byte order (all other modules); the harness checks the pre-image claim with SHA-256",
                  "the KV store iterates keys in ascending byte order (cosmossdk.io/store)"],
    assumptions=["InitGenesis is run on an empty module store (chain B's store of the module is wiped first)"],
)
