"""C03, C04: htlc"""
PROPS = {}

_RULE = ("histories of 24-46 (thorough: 25-80) steps over one generated asset parameter set (three assets: two "
         "active ones, usually both time-limited with different 20-90 s periods and time-based limits, and an inactive one, "
         "sometimes time-limited; small limits so they are hit; two deputies), "
         "5 actors + the module accounts; steps = create (plain multi-coin, incoming, outgoing, duplicates, ~10% malformed), "
         "(incl. a small share whose recipient is a blocked module account or the htlc module account itself), in a third of the histories MsgUpdateParams steps (by the authority or a stranger; valid sets: limits raised or cut - also below the usage -, time-based limit, period, active flag, deputy, fee, swap and lock bounds, time-limited flag; and invalid sets; assets removed from and put back into the parameters; the monitors use the stored parameters in force and stay on across rejected and compatible accepted changes, after an incompatible accepted change - limits cut below the usage, denoms removed - only the correspondence goes on for the rest of the case), claim (right / wrong / malformed secret, by recipient or third party, repeated, after refund) and runs of block "
         "boundaries with per-block time steps (every block is executed; time locks 50..120, thorough: a share up to 34560); "
         "the generator executes while drawing, so amounts sit at balance / limit boundaries, locks aim at shared expiry "
         "heights, claims land on expiration-1 / expiration / expiration+1 and time steps land on period-1ms / period / "
         "period+1ms; non-trivial = a contract is created and closed inside the history or a claim lands within +-1 of its "
         "expiry height; distinct = by hash of the history")

_TRUSTED = ["SHA-256 modelled as injective: hash locks and contract ids are identified with their pre-images "
            "(secret, timestamp) resp. (hash lock, sender, to, amount); the harness computes every real hash lock from "
            "the model's pre-image and checks that every real id is sha256 of exactly the model's pre-image "
            "(addresses of the test universe are all 20 bytes, so the concatenation is injective)",
            "SDK bank keeper modelled as a ledger (send / mint / burn, blocked recipients); its agreement is observed "
            "at every step (all balances of the universe, bank supply of the asset denoms)"]

_ASSUME = ["theorem hypotheses (visible in Props/C03.v, Props/C04.v): params_ok (asset limits are not negative), "
           "escrow_empty (the htlc module account holds nothing at genesis), wf_op (a create message is not signed by a "
           "module account; the generator never produces such messages; every case is tested against these hypotheses "
           "by hyps_b inside Coq)",
           "theorems and property monitors cover histories whose accepted parameter changes are compatible with the current usage (wf_run / compat_b: denoms kept, new limits >= current + incoming, ...); after an incompatible change the sums are proved to survive (InvCore) but the monitors are off and only the correspondence is checked",
           "nobody sends coins to the htlc module account outside the module's messages (donations)",
           "amounts stay below 2^256 (sdkmath.Int overflow is not modelled); time.Duration does not overflow"]

PROPS["C03"] = dict(
    driver="htlc",
    props_file="Props/C03.v",
    coq_targets=["Htlc/Check.vo"],
    check_module="Htlc.Check",
    check_fn="check_case_C03",
    coq_shard=20,
    streams=[dict(name="main", quick=320, thorough=6400)],
    rule=_RULE,
    codes={1: "htlc.state-machine", 2: "htlc.coins-moved-not-as-transitions-dictate", 3: "htlc.claim-iff-preimage",
           4: "htlc.refund-at-expiry", 5: "htlc.rejection-moved-something", 6: "htlc.duplicate-or-malformed-creation"},
    explain={1: "a contract made a transition other than open->completed / open->refunded, or its fixed fields changed",
             2: "balances / bank supply changed differently from what the observed state transitions dictate "
                "(funds left escrow twice, went to the wrong party, or were not minted / burned exactly once)",
             3: "a claim succeeded without the pre-image (bound to the contract's timestamp) of an open contract, or failed with it",
             4: "a contract open at the start of the block of its expiration height was not refunded there (or one was refunded elsewhere)",
             5: "a rejected message changed the observable state",
             6: "a creation under an existing id was accepted, or the created record does not carry the message's fields"},
    trusted_base=_TRUSTED,
    assumptions=_ASSUME,
)

PROPS["C04"] = dict(
    driver="htlc",
    props_file="Props/C04.v",
    coq_targets=["Htlc/Check.vo"],
    check_module="Htlc.Check",
    check_fn="check_case_C04",
    coq_shard=20,
    streams=[dict(name="main", quick=320, thorough=6400)],
    rule=_RULE,
    codes={1: "htlc.escrow-ne-open-contracts", 2: "htlc.incoming-outgoing-ne-open-transfers",
           3: "htlc.current-ne-minted-minus-burned", 4: "htlc.limit-exceeded"},
    explain={1: "the escrow balance differs from the sum over open ordinary contracts and open outgoing transfers",
             2: "an asset's incoming / outgoing counter differs from the sum over open transfers of that direction",
             3: "an asset's current supply differs from completed incoming minus completed outgoing, or from the denom's bank supply",
             4: "current + incoming exceeds the asset's limit, outgoing exceeds current, or more than the time-based limit was completed inside one limit period"},
    trusted_base=_TRUSTED,
    assumptions=_ASSUME,
)
