"""C15 mt"""
PROPS = {}

PROPS["C15"] = dict(
    driver="mt",
    props_file="Props/C15.v",
    coq_targets=["Mt/Check.vo"],
    check_module="Mt.Check",
    check_fn="check_case",
    streams=[dict(name="main", quick=320, thorough=8000), dict(name="abci", quick=48, thorough=1200)],
    coq_shard=20,
    coq_case_timeout=3600,
    rule="histories of 10-31 (thorough: 10-69) steps = issue-class / mint (new token or more of an existing one) / edit / "
         "transfer (also to self) / burn / hand-over messages by 4 actors (class owners, holders and strangers) and block "
         "boundaries; amounts over the whole uint64 range: small, log-uniform, 2^63, 2^64-1, exactly the room left below "
         "2^64-1 and one more, exactly what is held and one more; ~8% malformed (blank/unknown ids, bad addresses, amount 0); "
         "non-trivial = on some class a non-owner attempted mint/edit/hand-over and its owner succeeded with one; "
         "distinct = by hash of the history; stream 'abci' executes histories of the same generator through the real ABCI surface "
         "(InitChain, FinalizeBlock with one SIGNED transaction per message through the ante handlers, Commit; observations on the "
         "committed state; a message whose sender is not an address cannot be signed and counts as rejected)",
    codes={1: "mt.sum-of-balances-differs-from-supply", 2: "mt.transfer-not-exact", 3: "mt.burn-not-exact",
           4: "mt.mint-not-exact-or-wrapped", 5: "mt.authority", 6: "mt.id-reused-or-object-lost",
           7: "mt.step-changed-what-it-must-not"},
    explain={1: "for some token the holders' balances do not add up to the recorded supply (or a holder of a non-existent token, or a supply view disagrees)",
             2: "a successful transfer moved something other than exactly the amount from sender to recipient, or the sender did not hold it",
             3: "a successful burn did not reduce the burner's balance and the supply by exactly the amount, or the burner did not hold it",
             4: "a successful mint did not add exactly the amount (in unbounded integers) to recipient and supply: wrap-around",
             5: "mint / edit / hand-over succeeded for a non-owner, or an owner / token data changed without the owner's doing",
             6: "a generated id was already in use, a class or token disappeared, or a sequence did not advance",
             7: "a failed step, or a step of another kind, changed balances / supplies / classes / tokens"},
    trusted_base=["SHA-256 modelled as injective: class and token ids are identified with the sequence numbers they are the "
                  "hashes of; the harness checks on every creation that the real id is sha256 of exactly \"mt-denom-<n>\" / \"mt-<n>\""],
    assumptions=["fewer than 2^64 classes / tokens are ever created (hypothesis of generated_ids_never_reused and counters_no_wrap)"],
)
