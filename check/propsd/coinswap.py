"""C01, C02 coinswap"""
PROPS = {}

_HIST_RULE = (
    "histories of 10-40 (thorough: 10-80) steps over up to 3 pools (btc, eth, usdt against stake) by 3 users and a "
    "separate recipient: swaps (sell/buy, single/double hop, recipient = / != sender), two-sided and one-sided "
    "add/remove, donations and transfers (bank MsgSend, also of LPT and to not-yet-created pool addresses), swap "
    "recipients that are pool escrow addresses, donations of UNRELATED denoms to pool addresses followed by one-sided add/remove, "
    "two-sided add or swaps naming a denom the pool does not trade, MsgUpdateParams in mid-history (authority / strangers / out-of-range values), block "
    "boundaries; per-history module parameters (fee, one-sided fee, tax, creation fee incl. boundary values); "
    "amounts of a per-history magnitude class up to 2^128, chosen relative to the real reserves; bounds at exact, "
    "exact+-1, loose; deadlines at now, now-1, 0; ~10% malformed or refused messages; "
)

_KERNEL_STREAM = dict(
    name="kernels", quick=1600, thorough=60000, check_fn="check_kernel", case_type="kcase", coq_shard=200,
    codes={2: "coinswap.kernel.rule", 3: "coinswap.kernel.not-maximal", 4: "coinswap.kernel.not-near-minimal"})

PROPS["C01"] = dict(
    driver="coinswap",
    props_file="Props/C01.v",
    coq_targets=["Coinswap/Check.vo"],
    check_module="Coinswap.Check",
    check_fn="check_case_C01",
    streams=[dict(name="c01", quick=200, thorough=8000, coq_shard=20), _KERNEL_STREAM],
    rule=_HIST_RULE + "non-trivial = at least one successful swap and one successful liquidity change on a pool with "
         "L > 0, and a swap division left a non-zero remainder; kernels stream: GetInputPrice/GetOutputPrice as pure "
         "functions on (amount, x, y, fee) with 128-bit operands, residues 0 / small / just below the divisor, the "
         "256-bit overflow edge; non-trivial = non-zero remainder; distinct = by hash of the history",
    codes={1: "coinswap.value-per-share-fell", 2: "coinswap.leg.rule", 3: "coinswap.leg.not-maximal",
           4: "coinswap.leg.not-near-minimal"},
    explain={1: "S*T/L^2 of a pool fell across a step although L stayed positive",
             2: "a swap leg violates (x + (1-fee)*paid)*(y - received) >= x*y",
             3: "an exact-input leg paid out less than the rule allows",
             4: "an exact-output leg charged more than one unit above the minimum the rule allows"},
    trusted_base=["cosmossdk.io/math Int/LegacyDec restated in Base/Dec.v; SDK bank modelled as a ledger"],
    assumptions=["senders of messages are not pool escrow addresses (nobody holds their keys)",
                 "fee parameters in range at genesis: 0 <= fee < 1, 0 <= unilateral fee <= 1 (Inv; MsgUpdateParams is a step "
                 "of the model and keeps them in range)"],
)

PROPS["C02"] = dict(
    driver="coinswap",
    props_file="Props/C02.v",
    coq_targets=["Coinswap/Check.vo"],
    extra_props_files=["Coinswap/LinkParamsProps.v"],
    check_module="Coinswap.Check",
    check_fn="check_case_C02",
    streams=[dict(name="c02", quick=240, thorough=8000, coq_shard=20)],
    rule=_HIST_RULE + "observed after every message: balances of 4 actors, coinswap module account, fee collector, "
         "3 pool escrow addresses and the rest-of-the-world bucket in 4 bank denoms and 3 LPT denoms, all supplies, "
         "registry, responses; non-trivial = a successful message with recipient != sender, or a double hop, or a "
         "bound within 1 of the amount moved; distinct = by hash of the history",
    codes={1: "coinswap.failed-message-changed-state", 2: "coinswap.swap.balance-sheet", 3: "coinswap.swap.bound-or-deadline",
           4: "coinswap.liquidity.balance-sheet", 5: "coinswap.liquidity.bound-or-deadline", 6: "coinswap.supply-frame",
           7: "coinswap.registry", 8: "coinswap.bystander-step", 9: "coinswap.params"},
    explain={1: "a rejected or aborted message left a trace in the ledger, supplies or registry",
             2: "after a successful swap some account other than sender (-sold), recipient (+bought) and the pools "
                "involved changed, or the intermediate standard coin did not net to zero",
             3: "a swap succeeded outside the user's bound or after its deadline",
             4: "a liquidity message moved coins other than deposit/withdrawal, LPT mint/burn and the creation fee",
             5: "a liquidity message succeeded outside the user's bounds or after its deadline",
             6: "a total supply changed other than by LPT mint/burn or the burned part of the creation fee",
             7: "the pool registry changed unexpectedly", 8: "a plain transfer or block boundary changed something else",
             9: "the module parameters changed other than by a valid MsgUpdateParams of the authority, or such a "
                "message moved coins / did not store what it says"},
    trusted_base=["cosmossdk.io/math Int/LegacyDec restated in Base/Dec.v; SDK bank modelled as a ledger"],
    assumptions=["senders of messages are not pool escrow addresses (nobody holds their keys)",
                 "check_predicate_holds_on_model_step / lpt_mint_burn_only_against_reserves: signer is not a module account, "
                 "creation fee not denominated in an LPT denom"],
)
