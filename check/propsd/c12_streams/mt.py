STREAM = dict(
    name="mt", quick=32, thorough=1500, check_module="Genesis.Mt", check_fn="check_mt",
    codes={1: "mt-export-does-not-validate", 2: "mt-import-panics", 3: "mt-second-export-differs",
           4: "mt-query-differs-after-import", 5: "mt-sequence-differs-after-import"},
    nontrivial="an MT is held by at least two owners and some balance was emptied (burned or transferred away completely)",
)
