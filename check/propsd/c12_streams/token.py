STREAM = dict(
    name="token", quick=32, thorough=1200, check_module="Genesis.Token", check_fn="check_token",
    codes={1: "token-export-does-not-validate", 2: "token-import-panics", 3: "token-second-export-differs",
           4: "token-query-differs-after-import",
           5: "token-import-panics.fee-denom-is-not-a-registered-symbol"},
    nontrivial="at least two user tokens exist and some amount was burned (a burned tally is exported)",
)
