STREAM = dict(
    name="htlc", quick=32, thorough=1500, check_module="Genesis.Htlc", check_fn="check_htlc",
    codes={1: "htlc-export-does-not-validate", 2: "htlc-import-panics", 3: "htlc-second-export-differs",
           4: "htlc-query-differs-after-import", 5: "htlc-expiration-queue-not-rebuilt",
           7: "htlc-import-panics.parameters-changed-under-stored-supplies-or-open-transfers"},
    nontrivial="at least one open contract (time-bound) and at least one closed one (its escrow emptied)",
)
