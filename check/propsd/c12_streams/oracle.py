STREAM = dict(
    name="oracle", quick=32, thorough=1200, check_module="Genesis.Oracle", check_fn="check_oracle",
    codes={1: "oracle-export-does-not-validate", 2: "oracle-import-panics",
           21: "oracle-import-panics.request-context-missing-because-service-genesis-did-not-import",
           41: "oracle-feed-value-history-lost-on-import", 3: "oracle-second-export-differs",
           4: "oracle-query-differs-after-import", 5: "oracle-state-queue-not-rebuilt"},
    nontrivial="a feed is running (a batch is due) and some feed holds at least two values",
)
