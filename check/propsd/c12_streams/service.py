STREAM = dict(
    name="service", quick=32, thorough=1200, check_module="Genesis.Service", check_fn="check_service",
    codes={13: "service-export-does-not-validate.request-context-not-paused-with-completed-batch",
           1: "service-export-does-not-validate", 2: "service-import-panics", 3: "service-second-export-differs",
           4: "service-query-differs-after-import", 5: "service-binding-index-differs-after-import"},
    nontrivial="a request context is running (a batch is open or due) and at least one request was answered",
)
