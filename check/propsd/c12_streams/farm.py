STREAM = dict(
    name="farm", quick=32, thorough=1200, check_module="Genesis.Farm", check_fn="check_farm",
    codes={1: "farm-export-does-not-validate", 11: "farm-export-does-not-validate.farmer-with-nothing-locked",
           12: "farm-export-does-not-validate.reward-per-share-zero-after-release", 2: "farm-import-panics",
           3: "farm-second-export-differs", 4: "farm-query-differs-after-import",
           5: "farm-active-pool-queue-not-rebuilt.pool-ending-at-import-height"},
    nontrivial="at least one pool is still running (time-bound), a farmer is registered, and some tally is zero "
               "(a farmer with nothing locked or a pool whose stakes were all withdrawn)",
)
