STREAM = dict(
    name="record", quick=32, thorough=1500, check_module="Genesis.Record", check_fn="check_record",
    codes={1: "record-export-does-not-validate", 2: "record-import-panics",
           32: "record-second-export-loses-records", 42: "record-record-lost-on-import",
           31: "record-ids-change-on-import", 41: "record-ids-change-on-import"},
    nontrivial="at least two records are stored, two of them byte-identical submissions",
)
