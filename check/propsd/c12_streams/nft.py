STREAM = dict(
    name="nft", quick=32, thorough=1200, check_module="Genesis.Nft", check_fn="check_nft",
    codes={1: "nft-export-does-not-validate", 2: "nft-import-panics", 3: "nft-second-export-differs",
           4: "nft-query-differs-after-import", 5: "nft-supply-or-owner-list-differs-after-import"},
    nontrivial="NFTs are held by at least two owners and one NFT was burned",
)
