STREAM = dict(
    name="random", quick=32, thorough=1200, check_module="Genesis.Random", check_fn="check_random",
    codes={1: "random-export-does-not-validate", 2: "random-import-panics", 3: "random-second-export-differs",
           4: "random-pending-queue-differs-after-import"},
    nontrivial="at least one request is pending (time-bound) and at least one random number was generated (its queue slot emptied)",
)
