STREAM = dict(
    name="coinswap", quick=32, thorough=1200, check_module="Genesis.Coinswap", check_fn="check_coinswap",
    codes={1: "coinswap-export-does-not-validate", 2: "coinswap-import-panics", 3: "coinswap-second-export-differs",
           4: "coinswap-query-differs-after-import", 5: "coinswap-pool-reserves-differ-after-import"},
    nontrivial="at least two pools exist and one of them was emptied (all liquidity withdrawn)",
)
