"""C19 record"""
PROPS = {}

PROPS["C19"] = dict(
    driver="c19",
    props_file="Props/C19.v",
    coq_targets=["Record/Check.vo", "Record/Sound.vo"],
    check_module="Record.Check",
    check_fn="check_case",
    streams=[dict(name="main", quick=240, thorough=6000), dict(name="wrap", quick=60, thorough=1000),
             dict(name="notx", quick=100, thorough=2000), dict(name="bulk", quick=2, thorough=32, shard=1), dict(name="genesis", quick=40, thorough=800)],
    rule="histories of 4-18 (thorough: 4-44) steps = transactions of 1-4 create-record messages by 3 creators "
         "(contents from a pool of 4 so byte-identical records recur; ~10% invalid messages) and block boundaries; "
         "stream 'wrap' presets the 32-bit counter 1..6 below 2^32 so that it wraps inside the history; stream 'bulk' = one transaction of 257..336 (thorough ..656) byte-identical records followed by ordinary traffic, so that ids differ in more than the low byte of the counter; stream 'genesis' starts the chain from a genesis holding 1-6 records (loaded through the module's InitGenesis, each carrying the hash of the empty tx bytes) and then creates the same and other records outside a transaction at the same ordinal positions; stream 'notx' executes two thirds of the transactions with empty tx bytes (messages run by a governance proposal), so byte-identical records share the tx hash and only the counter separates their ids; non-trivial = the same (creator, contents) is created at least twice; distinct = by hash of the history",
    codes={0: "readback-or-duplicate-id"},
    explain={0: "a query by a returned id did not return exactly the submitted record, or an id was returned twice"},
    trusted_base=["SHA-256 modelled as injective: the id is identified with its pre-image (record bytes, counter); "
                  "the harness checks on every creation that the real id is sha256 of exactly that pre-image"],
    assumptions=["signed transactions have distinct tx bytes (the harness numbers them); messages executed outside a transaction share the empty tx bytes"],
)
