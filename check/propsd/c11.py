"""C11 determinism (all modules)"""
import re

PROPS = {}

_REPLICA = dict(check_module="Determinism.Check", check_fn="check_replicas", case_type="rcase", coq_shard=8)


def _classify(line, r):
    """classification key of a violation: computed from what differs, never from the property id.
    The key is also part of the replay file's name, so it contains no '/' or blanks."""
    hist = line.get("history") or {}
    if hist.get("Mode") == "static":
        steps = hist.get("Steps") or []
        i = r[1]
        if 0 <= i < len(steps):
            s = steps[i]
            fn = re.sub(r"[^A-Za-z0-9_.$#]+", "_", s.get("fn", "?")).strip("_")
            return "static.%s.%s.%d" % (s.get("sk", "?"), fn, s.get("ord", 0))
        return "static.unknown"
    what = "unknown"
    for s in line.get("steps") or []:
        m = re.match(r"DIFF at observation block \d+: (.*?)  \|A\|", s)
        if m:
            what = re.sub(r"[^A-Za-z0-9_.]+", "-", m.group(1)).strip("-")
            break
    return "replica.%s.%s" % (hist.get("Mode", "?"), what)


PROPS["C11"] = dict(
    driver="determinism",
    props_file="Props/C11.v",
    coq_targets=["Determinism/Check.vo", "Determinism/Proofs.vo"],
    translators=[dict(driver="determinism", args=["callgraph"], out="Gen/CallGraph.v")],
    check_module="Determinism.Check",
    check_fn="check_static",        # default = the obligation stream; every replica stream overrides it (_REPLICA)
    case_type="static_case",
    classify=_classify,
    shrink_key="Steps",
    streams=[
        dict(name="static", quick=96, thorough=96, shard=96,
             check_module="Determinism.Check", check_fn="check_static", case_type="static_case", coq_shard=200),
        dict(name="export", quick=32, thorough=800, **_REPLICA),
        dict(name="repeat", quick=16, thorough=400, **_REPLICA),
        dict(name="fresh", quick=16, thorough=300, **_REPLICA),
        dict(name="restart", quick=12, thorough=200, **_REPLICA),
        dict(name="abci", quick=16, thorough=300, **_REPLICA),
        dict(name="clock", quick=12, thorough=96, shard=1, **_REPLICA),
    ],
    driver_timeout={"quick": 600, "thorough": 7200},
    rule="static: one case per function holding reachable source occurrences of the regenerated call graph (decided in Coq "
         "by check_static = reach + allow list). replica streams: one generated history over all ten modules (setup prelude, "
         "the oracle price-feed skeleton: define/bind/create feed/start/respond/bind in a foreign denom/call, random "
         "token/nft/mt/record/htlc/coinswap/farm/random/service traffic, 5-75 blocks) executed by two replicas that differ in "
         "exactly one dimension (fresh OS process; repeated run in one process; 20 further ExportGenesis of one state; "
         "wall clock straddling the 300 s expiry of the price feed; app object rebuilt from the dumped stores at block "
         "boundaries; stream abci: real InitChain / FinalizeBlock with signed transactions through the ante handlers / Commit, "
         "in-memory node vs on-disk node closed and re-opened from disk at block boundaries, additionally observing the app "
         "hash and code/codespace/data/gas of every tx). Observed per block: outcome kind + response digest of every tx, begin/end-block outcome, SHA-256 of "
         "the ordered dump of each of the ten irismod stores, balances of all actors and module accounts; finally the "
         "exported genesis bytes of the ten modules. non-trivial = the history touches >= 5 modules with a successful "
         "message and contains >= 1 end/begin-block-driven transition; distinct = by hash of the history",
    codes={},
    explain={
        1: "an unsanctioned read of the host clock is reachable from a consensus entry point",
        2: "an unsanctioned entropy source is reachable from a consensus entry point",
        3: "an unsanctioned host-environment read is reachable from a consensus entry point",
        4: "an unsanctioned iteration over a Go map is reachable from a consensus entry point",
        5: "an unsanctioned goroutine creation is reachable from a consensus entry point",
        6: "an unsanctioned select statement is reachable from a consensus entry point",
        7: "unsanctioned floating-point arithmetic is reachable from a consensus entry point",
        8: "a package-level variable initialised from a nondeterminism source is read on a consensus path",
        9: "an unsanctioned write to a package-level variable is reachable from a consensus entry point",
        10: "an unsanctioned update of a Go map the function did not create (process-local state such as a keeper-level "
            "cache: survives a rolled-back tx, lost at restart) is reachable from a consensus entry point",
        20: "an unsanctioned in-place operation (cosmossdk.io/math *Mut / Set*) on a value the function did not create "
            "(parameter, field, map entry, package variable: a LegacyDec shares its big.Int with every copy) is reachable "
            "from a consensus entry point",
        11: "a second OS process executing the same genesis and history observed different state / results / export",
        12: "a second execution in the same process observed different state / results / export",
        13: "repeated ExportGenesis of one unchanged state produced different bytes",
        14: "two executions of the same history at wall-clock times straddling a duration threshold differ",
        15: "a node rebuilt from its stores at a block boundary diverges from one that kept running",
        16: "real ABCI execution (signed txs, FinalizeBlock/Commit): a node closed and re-opened from disk at block "
            "boundaries shows a different app hash / tx result / store / export than one that kept running in memory",
    },
    trusted_base=[
        "the call-graph translator harness/cmd/determinism/cg (go/packages + go/ssa of x/tools v0.29.0, CHA for interface "
        "calls, reference edges for function values, interface-conversion edges for methods callable by SDK code) and "
        "CHA/these edges as an over-approximation of the calls irismod code can make",
        "the review recorded in coq/Determinism/Allow.v (justification class per sanctioned source)",
        "QuantisedFloat entries assume IEEE-754 float64 and the same Go build on every node (math.Log/Pow differ on s390x assembly)",
        "runtime behaviour outside irismod's own code: goroutine scheduling inside CometBFT/IAVL, the Go map implementation, "
        "hardware floats — not expressible in the Gallina model; covered only as far as replica differencing exercises it",
        "stream restart approximates a restart by rebuilding the app object over a dump of all KV stores; stream abci does the "
        "real thing (goleveldb closed and re-opened, IAVL loaded from disk) on the same histories",
    ],
    assumptions=[
        "events and log text are not observables (state, tx result kind + response bytes, exported genesis are)",
        "the genesis is the same bytes on every node (the harness builds it in-process from the modules' DefaultGenesis)",
    ],
)
