"""C20 two protobuf families (descriptors, wire encoding, registration, signers)"""
import re

PROPS = {}


def _classify(line, r):
    """classification key of a failing case: the clause, and for descriptor clauses the item
    (no '/' in keys: they become part of the replay file name)"""
    code = r[2]
    h = line.get("history", {})
    if code == 1:
        return "wire.absent-nonnullable-field-emitted-by-gogoproto-only"
    if code == 3:
        return "wire.gogoproto-map-entry-order-unstable"
    if code == 4:
        return "wire.customtype-numeral-on-message-typed-field"
    if code == 2:
        return "wire.families-disagree.%s" % h.get("msg", "?")
    if code == 30:
        # the source row the comparison stopped at (the driver lists the numbered rows of the file):
        # name the construct / the declaration in the key
        fsafe = re.sub(r"[^A-Za-z0-9_.]", "_", h.get("file", "?"))
        rows = {}
        for st in line.get("steps") or []:
            m = re.match(r"source row (\d+): (\w+) (.*)", st)
            if m:
                rows[int(m.group(1))] = (m.group(2), m.group(3))
        for i in sorted(rows):
            if rows[i][0] == "RUnsupported":
                m = re.match(r'"[^"]*" (\d+)', rows[i][1])
                return "descriptor.proto-source-unsupported.%s.line%s" % (fsafe, m.group(1) if m else "0")
        if r[1] in rows:
            kind, rest = rows[r[1]]
            names = re.findall(r'"((?:[^"]|"")*)"', rest)[:(1 if kind == "ROpt" else 2)]
            subj = ".".join(re.sub(r"[^A-Za-z0-9_.]", "_", n.split(" ")[-1]) for n in names if n)
            return "descriptor.proto-source-differs.%s.%s.%s.at%d" % (fsafe, kind, subj[:120], r[1])
    if code == 11:
        for st in line.get("steps") or []:
            m = re.search(r"message (\S+) field (\w+)", st)
            if m:
                return "descriptor.message.%s.%s.field-%s.at%d" % (re.sub(r"[^A-Za-z0-9_.]", "_", h.get("file", "?")), h.get("name", "?").replace("/", "_"), m.group(2), r[1])
    name = {10: "file", 11: "message", 12: "enum", 13: "service", 14: "imported-message", 15: "grpc-service-desc", 20: "unregistered-msg",
            21: "signer-unresolved", 30: "proto-source-differs"}.get(code, "code%d" % code)
    return "descriptor.%s.%s.%s.at%d" % (name, re.sub(r"[^A-Za-z0-9_.]", "_", h.get("file", "?")), h.get("name", "?").replace("/", "_"), r[1])


_wire = dict(check_module="Proto.Cases", check_fn="check_wire", case_type="wcase",
             case_imports=["Open Scope string_scope."], coq_shard=60)

PROPS["C20"] = dict(
    driver="proto",
    translators=[dict(driver="proto", args=["descriptors"], out="Gen/Descriptors.v")],
    props_file="Props/C20.v",
    coq_targets=["Proto/Check.vo", "Proto/Cases.vo"],
    check_module="Proto.Check",
    check_fn="check_static",
    case_type="scase",
    case_imports=["Open Scope string_scope."],
    streams=[
        dict(name="static", quick=620, thorough=620, check_module="Proto.Check", check_fn="check_static",
             case_type="scase", case_imports=["Open Scope string_scope."], coq_shard=200),
        dict(name="populated", quick=1200, thorough=30000, **_wire),
        dict(name="absent", quick=600, thorough=12000, **_wire),
        dict(name="maporder", quick=60, thorough=1200, **_wire),
        dict(name="mismatch", quick=30, thorough=600, **_wire),
    ],
    classify=_classify,
    shrink_key="fields",
    rule="static: one case per file / message / enum / service / grpc.ServiceDesc / transaction message / .proto source file / "
         "imported message (exhaustive over the regenerated descriptor sets of both families); wire: for every message type "
         "under proto/irismod (every type once with a maximal value, then round robin over the types that have fields) a "
         "value generated from its descriptor - maximal (all fields, extreme integers, long strings, 3 elements per repeated "
         "field), random, and empty - with nested messages, repeated and packed fields, maps, Any-wrapped messages, "
         "Timestamp/Duration; non-trivial = the value sets a nested, repeated, map or Any field; distinct = by hash of "
         "(message, value)",
    explain={
        1: "a (gogoproto.nullable)=false message field or customtype numeral is absent: the gogoproto family emits it, protobuf-go does not",
        2: "the two generated families do not produce / accept the same bytes for this value",
        3: "the gogoproto marshaller iterates a Go map: entries of a map field come out in varying order",
        4: "a customtype numeral (math.LegacyDec) sits on a field declared as a message: the gogoproto family writes a numeral where the api family expects a message",
        10: "file-level data (package, syntax, imports, declared names) differ between the families",
        11: "the message's descriptor (field name, number, type, label, json name, options) differs between the families",
        12: "the enum's descriptor differs between the families",
        13: "the service's descriptor (methods, request/response types, streaming, options) differs between the families",
        15: "the grpc.ServiceDesc in the generated Go code (service name, method names, request types, streaming, metadata file) is not what the descriptors declare",
        14: "an imported message (Coin, PageRequest, Any, ...) has a different wire layout in the two families",
        20: "a transaction message (request type of a Msg service) is not registered as sdk.Msg in the interface registry",
        21: "the cosmos.msg.v1.signer option of a transaction message does not resolve to an address field",
        30: "the text of the .proto file and the generated descriptors disagree (or the text uses a construct the extractor does not understand: RUnsupported row naming file and line)",
    },
    trusted_base=[
        "translator harness/cmd/proto (reads both registries and both families' grpc.ServiceDesc values, normalises options to wire form, "
        "extracts the .proto text table with a tokenizer + recursive-descent parser of the proto3 subset in use; option names are "
        "resolved to numbers through the linked descriptors of the files that declare them)",
        "the two marshaller implementations are tied by differential evaluation against Proto/Wire.v, not verified",
    ],
    assumptions=[
        "values of customtype fields are canonical decimal numerals, Timestamp/Duration values are in the range of Go's time.Time / time.Duration (the domain of the Go types the gogoproto family uses)",
        "the app-config objects irismod/*/module/v1/module.proto are generated for the api/ family only (rule of scripts/protocgen.sh: no go_package option) and have no counterpart to compare",
    ],
)
