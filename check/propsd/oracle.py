"""C17 oracle feeds"""
PROPS = {}

PROPS["C17"] = dict(
    driver="oracle",
    props_file="Props/C17.v",
    coq_targets=["Oracle/Check.vo", "Oracle/Proofs.vo", "Oracle/Sound.vo"],
    extra_props_files=["Oracle/LinkProps.v"],
    check_module="Oracle.Check",
    check_fn="check_case_c",
    case_type="ccase",
    coq_shard=40,
    shrink_budget=160,
    streams=[dict(name="main", quick=320, thorough=8000),
             dict(name="extreme", quick=80, thorough=2000),
             dict(name="price", quick=40, thorough=1000)],
    rule="histories of 40-100 (thorough: up to 160) steps against the REAL service + oracle modules: 1-3 bound providers, "
         "1-2 feeds (max/min/avg, 4 json paths, latest-history 1-4 or up to 100, thresholds 1..N, timeout 1-3, frequency "
         "timeout..timeout+2, fee caps that exclude some providers), start/pause/edit by creator and strangers, direct "
         "service messages at the feed's context, end-blocks each followed by a burst of MsgRespondService from all/some/"
         "none of the providers (numbers as literals, numeric strings, exponent form, true; missing/null/text fields; "
         "result code 500; late and foreign answers), creators funded generously or with 0-400 stake (auto-pause) and "
         "topped up; stream main: values m*10^e, |m| < 10^9, e in -11..6; stream extreme: exactly representable "
         "+-m*2^k (k in -40..900) and tiny literals, max/min and (since round 3) avg with the exact-rational model inside the guard band; non-trivial = on some feed >= 2 batches stored a value "
         "and its latest-history is smaller than the number of values produced; distinct = by hash of the history; one history in three spells the two feeds eth/ethusd, ab/a or btc-usd/btc (one name a proper "
         "prefix of the other; both feeds driven equally, so both hold values while the shorter one is queried, completed and shrunk); "
         "all streams: the price service is asked about a feed (or an unknown one) at random points; stream price: as main, plus blocks "
         "200-320 s apart (half of them 280-305 s) each followed by a price request, so that the newest value ages to just below / exactly / "
         "beyond 5 minutes of block time",
    codes={1: "oracle-aggregate-mismatch", 2: "oracle-value-timestamp", 3: "oracle-history-trim",
           4: "oracle-state-mirror", 5: "oracle-non-creator-control", 6: "oracle-value-count",
           7: "oracle-price-service"},
    explain={1: "a stored feed value is not the configured aggregate (max/min/avg, 8 decimals) of the values the harness' providers sent in that batch",
             2: "a stored feed value is not stamped with the time of the block in which its batch completed",
             3: "the feed's value list is not [new value; newest latest-history-1 old values] after a batch, or not the newest latest-history values after an edit, or longer than latest-history",
             4: "the feed's running/paused index disagrees with the state of its service request context",
             5: "an account other than the feed's creator started, paused or edited the feed (or its attempt changed something)",
             6: "the number of stored values changed without a completed batch that met its threshold, or did not change with one",
             7: "the oracle price service (ModuleServiceRequest) did not answer with the feed's newest stored value: 400 unknown feed, 401 no value, "
                "402 newest value older than 5 minutes of block time, else 200 and that value"},
    trusted_base=["float64 aggregation (gjson ParseFloat, +, /, FormatFloat 'f' 8) is modelled on exact decimal rationals with "
                  "round-half-even at the 8th decimal; cases whose exact result lies within the float error band of a rounding "
                  "boundary are compared with tolerance 1e-8 (or skipped when the band exceeds 0.25e-8) and counted in the histograms",
                  "the service module is abstracted to the events it really produced (new batch, batch completed with outputs, "
                  "auto-pause), recorded by the harness from the real service module's events and state",
                  "JSON handling (gjson path lookup, JSON-schema validation) is an oracle: fields are interned names"],
    assumptions=["response values are finite decimals within the float64 range; NaN/Inf strings and overflowing literals are outside the model",
                 "block times are whole seconds",
                 "run_wfb (hypothesis of one_value_per_successful_batch, stamped_with_block_time, keeps_newest_latest_history, "
                 "newest_min_latest_history_produced): the service module completes a batch only while it is running; validated on "
                 "every generated history by sevs_consistent (real BatchState, batch counter and threshold snapshot before every "
                 "completed batch) - a violation is reported as a divergence; since round 3 it is also DERIVED from the service group's model "
                 "(theorems service_callbacks_find_batch_running, run_wfb_from_service_model)"],
)
