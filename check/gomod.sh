#!/bin/sh
# Regenerates harness/go.mod and go.sum from $REPO/e2e (the module that already links all ten
# irismod modules and simapp), pointing every local replace at $REPO.  Written only on change.
# REPO defaults to /repo; VERIF_REPO overrides it (used only for scratch worktrees during development).
set -e
V=$(cd "$(dirname "$0")/.." && pwd)
R=${VERIF_REPO:-/repo}
H=$V/harness
tmp=$(mktemp)
sed -e "s#=> \.\./#=> $R/#" -e 's#^module mods.irisnet.org/e2e#module verifharness#' $R/e2e/go.mod \
 | awk -v R="$R" '
   /^\tmods.irisnet.org\/simapp v/ && !done1 {print; print "\tmods.irisnet.org/e2e v0.0.0"; done1=1; next}
   /^\tmods.irisnet.org\/simapp => / {print; print "\tmods.irisnet.org/e2e => " R "/e2e"; next}
   {print}' > "$tmp"
cmp -s "$tmp" $H/go.mod || cp "$tmp" $H/go.mod
cmp -s $R/e2e/go.sum $H/go.sum || cp $R/e2e/go.sum $H/go.sum
rm -f "$tmp"
