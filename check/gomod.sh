#!/bin/sh
# Regenerates harness/go.mod and go.sum from /repo/e2e (the module that already links all ten
# irismod modules and simapp), pointing every local replace at /repo.  Written only on change.
set -e
H=/verif/harness
tmp=$(mktemp)
sed -e 's#=> \.\./#=> /repo/#' -e 's#^module mods.irisnet.org/e2e#module verifharness#' /repo/e2e/go.mod \
 | awk '
   /^\tmods.irisnet.org\/simapp v/ && !done1 {print; print "\tmods.irisnet.org/e2e v0.0.0"; done1=1; next}
   /^\tmods.irisnet.org\/simapp => / {print; print "\tmods.irisnet.org/e2e => /repo/e2e"; next}
   {print}' > "$tmp"
cmp -s "$tmp" $H/go.mod || cp "$tmp" $H/go.mod
cmp -s /repo/e2e/go.sum $H/go.sum || cp /repo/e2e/go.sum $H/go.sum
rm -f "$tmp"
